"""Function-level properties (C07, C08, C09, C10, C17, C18, C19): a driver linked against /repo's objects records
call events as NDJSON; TLC judges every event against the Layer-C function spec (trace validation, sharded)."""
import concurrent.futures
import json
import os
import subprocess

import runs
import vcheck


def driver(name, san=False, flavour=None):
    return os.path.join(runs.bdir(flavour), name + ("_san" if san else ""))


def produce(name, argsets, san=False, timeout=900, flavour=None):
    """Run the driver once per argument list (in parallel); -> list of (path, nlines, stderr_tail).
    flavour: the build flavour of /repo's sources the driver is linked against ("uchar": -funsigned-char)"""
    exe = driver(name, san, flavour)

    def one(i_args):
        i, args = i_args
        path = os.path.join(vcheck.scratch(), "%s%s-%d-%d.ndjson" % (name, "-" + flavour if flavour else "", os.getpid(), i))
        with open(path, "wb") as f:
            env = dict(os.environ, ASAN_OPTIONS="detect_leaks=0:exitcode=77", UBSAN_OPTIONS="halt_on_error=1:exitcode=78:print_stacktrace=1")
            p = subprocess.run([exe] + [str(a) for a in args], stdout=f, stderr=subprocess.PIPE, timeout=int(timeout * vcheck.TSCALE), env=env)
        n = 0
        with open(path, "rb") as f:
            for _ in f:
                n += 1
        return path, n, p.returncode, p.stderr.decode("latin-1")[-3000:]

    with concurrent.futures.ThreadPoolExecutor(vcheck.NCPU) as ex:
        return list(ex.map(one, list(enumerate(argsets))))


def judge_files(chk, module, cfg, files, sig_prefix, sigfn=None, timeout=1800, max_rejects=3, env_extra=None, drift=False):
    """TLC validates each NDJSON file against trace spec `module`.  A rejected line is reported (VIOLATION unless
    drift=True) and validation continues behind it."""
    def work(path):
        rejected = []
        done = 0
        total = None
        cur = path
        while True:
            reached, tot, r = vcheck._validate_file(module, cfg, cur, timeout, env_extra)
            if reached is None:
                return done, rejected, "trace validation broken: " + (r.broken or r.out[-800:])
            if total is None:
                total = tot
            if reached >= tot:
                done += tot
                break
            # line reached+1 (1-based) of cur is the first unmatched one
            with open(cur, "rb") as f:
                lines = f.readlines()
            bad = lines[reached]
            try:
                ev = json.loads(bad)
            except ValueError:
                ev = {"raw": bad[:200].decode("latin-1")}
            rejected.append(ev)
            done += reached + 1
            rest = lines[reached + 1:]
            if not rest or len(rejected) >= max_rejects:
                break
            cur = path + ".rest"
            with open(cur, "wb") as f:
                f.writelines(rest)
        return done, rejected, None

    out = {"events": 0, "rejected": []}
    with concurrent.futures.ThreadPoolExecutor(vcheck.NCPU) as ex:
        for (done, rej, broken), path in zip(ex.map(work, files), files):
            out["events"] += done
            if broken:
                chk.broken.append(broken)
            for ev in rej:
                out["rejected"].append(ev)
                if drift:
                    continue
                sig = sig_prefix + ":" + (sigfn(ev) if sigfn else str(ev.get("e")))
                chk.violation(sig, "spec %s rejects event %s" % (module, json.dumps(ev)[:900]), {"event": ev})
    chk.cov["trace_events"] = chk.cov.get("trace_events", 0) + out["events"]
    chk.cov["traces_validated_against_impl"] = chk.cov.get("traces_validated_against_impl", 0) + len(files)
    for p in files:
        for q in (p, p + ".rest"):
            try:
                os.unlink(q)
            except OSError:
                pass
    return out


def survey(chk, files, nontrivial=None, nsamples=3, maxlen=400):
    """Before judging: take samples and count DISTINCT non-trivial events (distinct = different event line;
    non-trivial = predicate on the parsed event).  Returns (total, distinct_nontrivial)."""
    import hashlib
    seen = set()
    total = 0
    for path in files:
        try:
            with open(path, "rb") as f:
                for line in f:
                    total += 1
                    if len(chk.cov["samples"]) < nsamples and total % 997 == 1:
                        chk.sample(line[:maxlen].decode("latin-1"))
                    if nontrivial is not None:
                        try:
                            ev = json.loads(line)
                        except ValueError:
                            continue
                        if not nontrivial(ev):
                            continue
                    seen.add(hashlib.blake2b(line, digest_size=8).digest())
        except OSError:
            pass
    return total, len(seen)


def san_failures(chk, produced, sig_prefix):
    for path, n, rc, err in produced:
        if rc != 0:
            rep = runs.sanitizer_report(err)
            if rep:
                chk.violation(sig_prefix + ":sanitizer:" + vcheck.san_signature(rep), "driver aborted: " + rep[:1500], {})
            else:
                chk.broken.append("driver exit %s: %s" % (rc, err[-500:]))
