"""C06  Client survives arbitrary replies (memory safety, termination); unmatched replies are ignored.

G: the real client talks to the real server through a man in the middle that lets the legitimate dialogue run up to a
   chosen step (every handshake step kind x ordinal, and pings / data during tunnelling) and then injects generated
   replies: arbitrary bytes, DNS error codes, well-formed answers with hostile payloads in every downstream encoding,
   structurally hostile answer sections for every record type, wrong ids / unfitting questions, raw frames,
   mutations of the real answer.
T: memory safety / UB: ASan+UBSan in the harness; bounded time: step watchdog; "unmatched replies are ignored":
   spec/MonClientSafe.tla.
Also hosts the client half of C12 (residue_family) since it uses the same man in the middle.
"""
import json
import random

import dnsmsg as D
import mitm
import proto
import scen
import vcheck
from checks import common

STEPS = [("version", 0), ("login", 0), ("downenctest", 0), ("upenctest", 0), ("upenctest", 2), ("upenctest", 4),
         ("switchcodec", 0), ("option", 0), ("option", 1), ("fragprobe", 0), ("fragprobe", 3), ("fragprobe", 6),
         ("setfrag", 0), ("ping", 0), ("ping", 2), ("data", 0), ("data", 1), ("any", 0), ("any", 1)]
PKTS = [[100, "S", "C0", "rand", 300], [150, "C0", "S", "rand", 400], [900, "S", "C0", "text", 900],
        [1500, "C0", "S", "rand", 60]]


def specs(tier, seed):
    rng = random.Random(seed)
    out = []
    reps = 3 if tier == "quick" else 30
    n = 40
    k = 0
    for rep in range(reps):
        for qt in common.QTYPES:
            for (kind, ord_) in STEPS:
                de = rng.choice(common.DOWNENCS)
                if de == "Raw" and qt not in ("TXT", "NULL", "PRIVATE"):
                    de = None
                sess = {"qtype": qt, "downenc": de, "lazy": rng.choice([0, 1])}
                if kind == "any" and ord_ == 1:
                    sess["qtype"] = None           # autodetect: hostile replies during the type probes
                out.append({"seed": seed * 100000 + k, "sess": sess, "pkts": PKTS, "dur_ms": 6000,
                            "plan": [{"kind": kind, "k": ord_, "n": n, "mode": rng.choice(["prepend", "prepend", "replace"]),
                                      "what": "hostile"}],
                            "label": "%s/%s%d/%d" % (qt, kind, ord_, rep), "hs_limit_ms": 200000})
                k += 1
    # buffer edges, deterministically: at every dialogue step the FIRST reply the client sees is a matching, well-formed
    # answer whose decoded payload has exactly the size of a receive buffer (or one byte less / more)
    import hostile as _h
    for si in range(len(_h.EDGE_SIZES) if tier != "quick" else 3):
        for qt in (common.QTYPES if tier != "quick" else ["NULL", "PRIVATE", "TXT", "MX"]):
            for (kind, ord_) in STEPS:
                out.append({"seed": seed * 100000 + k, "sess": {"qtype": qt, "lazy": 1}, "pkts": PKTS, "dur_ms": 3000,
                            "plan": [{"kind": kind, "k": ord_, "n": 3, "mode": "prepend", "what": "edge", "size_idx": [0, 2, 1][si] if si < 3 else si}],
                            "label": "%s/edge%d/%s%d" % (qt, si, kind, ord_), "hs_limit_ms": 200000})
                k += 1
    # raw UDP mode: the client's other receive path (4-byte raw header, no DNS parsing)
    for rep in range(2 if tier == "quick" else 12):
        for ord_ in range(5):
            out.append({"seed": seed * 100000 + k, "sess": {"qtype": "NULL", "raw": True}, "pkts": PKTS + [[2500, "S", "C0", "rand", 700]],
                        "dur_ms": 6000, "plan": [{"kind": "rawdown", "k": ord_, "n": 14}],
                        "label": "raw/rawdown%d/%d" % (ord_, rep), "hs_limit_ms": 200000})
            k += 1
    # fragment chains: one downstream packet that never ends, each fragment as large as the record type carries
    # (MX / SRV answers decode to tens of kilobytes: the reassembly buffer must clamp the SUM, not each fragment)
    sizes = {"NULL": [4094, 1200], "PRIVATE": [4094], "TXT": [1100, 4000], "CNAME": [140], "A": [140],
             "MX": [-228, -150, -40], "SRV": [-225, -120]}        # negative: that many maximal exchange names
    for rep in range(1 if tier == "quick" else 6):
        for qt in common.QTYPES:
            for size in sizes[qt]:
                for (kind, ord_) in (("ping", 1), ("data", 0)):
                    de = rng.choice(["T", "V", "S", "U"])
                    out.append({"seed": seed * 100000 + k, "sess": {"qtype": qt, "downenc": de, "lazy": rng.choice([0, 1])},
                                "pkts": PKTS, "dur_ms": 9000, "hs_limit_ms": 200000,
                                "plan": [dict({"kind": kind, "k": ord_, "n": rng.choice([3, 16, 20]), "what": "chain", "downenc": de},
                                              **({"records": -size, "short": rng.choice([0, 0, 1, 7])} if size < 0 else
                                                 {"size": size - rng.choice([0, 0, 1, 7])}))],
                                "label": "%s/chain%d/%s%d/%d" % (qt, size, kind, ord_, rep)})
                    k += 1
    return out


def _hdr_fields(data, domain):
    if data[:3] == proto.RAW_HDR:
        return None
    m = D.parse(data)
    if not m.qd:
        return None
    c = proto.classify_query(m.qd[0][0], domain)
    if c["kind"] == "ping":
        return ("ack", c["dseq"], c["dfrag"])
    if c["kind"] == "data":
        return ("ack", c["dseq"], c["dfrag"], c["useq"], c["ufrag"])
    return None


def abstract(r):
    evs = []
    last = None
    for s in r["steps"]:
        tag = s["tag"]
        sends = [bytes.fromhex(o[1]) for o in s["outs"] if o[0] == "send"]
        fields = [f for f in (_hdr_fields(d, scen.DOMAIN) for d in sends) if f]
        if tag and tag.get("hostile"):
            ackchg = False
            if not tag["matched"] and last is not None:
                for f in fields:
                    if f[1:3] != last[1:3] or (len(f) > 3 and len(last) > 3 and f[3:] != last[3:]) or \
                       (len(f) > 3 and len(last) <= 3):
                        ackchg = True
            evs.append({"e": "Reply", "matched": bool(tag["matched"]), "kind": tag["kind"], "step": tag["step"],
                        "tunw": sum(1 for o in s["outs"] if o[0] == "tunw"),
                        "sys": sum(1 for o in s["outs"] if o[0] == "system"), "ackchg": ackchg,
                        "hex": s["data"][:80].hex()})
        if fields:
            last = fields[-1]
        elif not (tag and tag.get("hostile") and not tag["matched"]):
            last = None     # a real / matching reply may legitimately have moved the positions: baseline unknown
    return evs


def _run(spec):
    r = mitm.execute(spec)
    return {"label": spec["label"], "spec": spec, "c06": abstract(r), "san": r["san"], "hang": r["hang"],
            "error": r["error"], "stats": r["stats"], "exits": r["exits"]}


def main(tier):
    chk = vcheck.Check("C06", "exploration", tier)
    seed = vcheck.seed() + 6
    results = vcheck.parallel(_run, specs(tier, seed))
    common.judge(chk, results, "TraceMonClientSafe", "TraceMonClientSafe.cfg", "clientsafe",
                 sigfn=lambda r, rej: "%s:%s" % (rej["event"].get("kind"), rej["event"].get("step", "").split("/")[0]),
                 key="c06")
    for r in results:
        if r["san"]:
            chk.violation("clientsafe:sanitizer:" + vcheck.san_signature(r["san"]),
                          "sanitizer report / crash in run %s: %s" % (r["label"], r["san"][:1500]), {"spec": r["spec"]})
        elif r["hang"]:
            chk.violation("clientsafe:hang", "client step did not return in run %s" % r["label"], {"spec": r["spec"]})
    kinds = {}
    steps = set()
    for r in results:
        for e in r["c06"]:
            kinds[e["kind"]] = kinds.get(e["kind"], 0) + 1
            steps.add(e["step"])
    chk.cov["evaluations"] = sum(len(r["c06"]) for r in results)
    chk.cov["replies_by_kind"] = kinds
    chk.cov["dialogue_steps_attacked"] = sorted(steps)
    chk.cov["runs"] = len(results)
    chk.cov["client_exits"] = sum(1 for r in results if any(i == "C0" for i, _ in r["exits"]))
    chk.cov["distinct_nontrivial"] = len({(e["kind"], e["step"]) for r in results for e in r["c06"]})
    chk.cov["rule"] = ("one evaluation = one generated reply consumed by the sanitizer-instrumented real client; "
                       "non-trivial = distinct (reply kind, dialogue step) pairs")
    chk.cov["oracles"] = {"memory_safety_and_UB": "clang ASan+UBSan in the harness binary (observed, not specified)",
                          "bounded_time": "per-step watchdog", "ignored_if_unmatched": "TLC trace validation (MonClientSafe)"}
    for r in results[:1]:
        chk.sample({"label": r["label"], "events": r["c06"][:5]})
    chk.assumptions += common.ASSUME_SIM
    return chk.finish()


def replay(path):
    b = json.load(open(path))
    r = _run(b["bundle"]["spec"])
    print(json.dumps({"c06": r["c06"], "san": r["san"], "exits": r["exits"]}, indent=0)[:8000])
    return 0


# ------------------------------------------------------------------ C12, client half
def _residue_run(arg):
    spec, modes = arg
    seqs = []
    san = None
    for m in modes:
        r = mitm.execute(dict(spec, residue=m))
        seqs.append([(s["data"].hex(), s["outs"]) for s in r["steps"]] + [("exits", r["exits"])])
        san = san or r["san"]
    evs = []
    n = min(len(x) for x in seqs)
    nhost = 0
    for i in range(n):
        a = seqs[0][i]
        eq = all(x[i] == a for x in seqs[1:])
        ev = {"e": "Pair", "i": i, "equal": eq, "len": len(a[0]) // 2 if isinstance(a[0], str) and a[0] != "exits" else 0,
              "hex": a[0][:160] if isinstance(a[0], str) else "", "victim": True}
        if not eq:
            ev["outs"] = [json.dumps(x[i][1])[:600] for x in seqs]
        evs.append(ev)
        if not eq:
            break       # everything after the first divergence differs trivially
    if all(e["equal"] for e in evs) and any(len(x) != n for x in seqs):
        evs.append({"e": "Pair", "i": n, "equal": False, "len": 0, "hex": "", "victim": True,
                    "outs": ["runs have different lengths %s" % [len(x) for x in seqs]]})
    return {"label": spec["label"], "spec": spec, "c12": evs, "san": san, "stats": {"pairs": len(evs)}}


def _hist_run(spec):
    """the same dialogue three times, differing only in the CONTENT of an ignorable long reply that precedes the probes"""
    seqs = []
    san = None
    for v in range(3):
        sp = dict(spec, plan=[dict(p, variant=v) for p in spec["plan"]], dump_clients=True)
        r = mitm.execute(sp)
        steps = [(s["tag"] or {}).get("kind", "real") for s in r["steps"]]
        seqs.append([((s["tag"] or {}).get("kind", "real"), s["data"].hex() if (s["tag"] or {}).get("kind") != "histfill" else "fill",
                      s["outs"]) for s in r["steps"]] + [("exits", "", r["exits"])])
        san = san or r["san"]
    evs = []
    n = min(len(x) for x in seqs)
    for i in range(n):
        a = seqs[0][i]
        eq = all(x[i] == a for x in seqs[1:])
        ev = {"e": "Pair", "i": i, "equal": eq, "len": len(a[1]) // 2 if a[1] != "fill" else 0, "hex": a[1][:160], "victim": True}
        if not eq:
            ev["outs"] = [json.dumps(x[i])[:600] for x in seqs]
        evs.append(ev)
        if not eq:
            break
    return {"label": spec["label"], "spec": spec, "c12": evs, "san": san, "stats": {"pairs": len(evs)}}


def history_family(chk, tier, seed):
    """C12, client side, the buffers BEHIND the receive buffer: what the client makes of a reply must not depend on the
    content of earlier, longer replies either (its decode buffers are re-used from reply to reply)."""
    sp = []
    k = 0
    for rep in range(1 if tier == "quick" else 6):
        for qt in common.QTYPES:
            for (kind, ord_) in (("ping", 1), ("ping", 3), ("data", 0), ("login", 0), ("fragprobe", 2)):
                sp.append({"seed": seed * 100000 + 60000 + k, "sess": {"qtype": qt, "lazy": (k + rep) % 2}, "pkts": PKTS,
                           "dur_ms": 4000, "hs_limit_ms": 200000,
                           "plan": [{"kind": kind, "k": ord_ + j, "n": 2 + (j + k) % 3, "mode": "prepend", "what": "histx",
                                     "probe_seed": k * 10 + j} for j in range(3)],
                           "label": "chist/%s/%s%d/%d" % (qt, kind, ord_, rep)})
                k += 1
    results = vcheck.parallel(_hist_run, sp)
    common.judge(chk, results, "TraceMonResidue", "TraceMonResidue.cfg", "residue",
                 sigfn=lambda r, rej: "client-history:%s:%s" % (r["spec"]["sess"]["qtype"], r["spec"]["plan"][0]["kind"]), key="c12")
    chk.cov["client_history_runs"] = len(results)
    chk.cov["evaluations"] = chk.cov.get("evaluations", 0) + sum(r["stats"]["pairs"] for r in results)
    return results


def residue_family(chk, tier, seed):
    rng = random.Random(seed + 99)
    # 1 zeros, 4 what the previous datagram left, 2 0xA5, "5 <hex>" a repeated pattern of small numbers that a decoder
    # reading past the end would take for a valid preference / length / pointer
    modes = (1, 4, "5 000a") if tier == "quick" else (1, 4, 2, "5 000a", "5 0014", "5 0100", "5 c00c")
    sp = []
    k = 0
    steps = [("login", 0), ("fragprobe", 1), ("fragprobe", 4), ("ping", 1), ("ping", 3), ("data", 0), ("data", 1),
             ("downenctest", 0), ("upenctest", 1), ("setfrag", 0)]
    reps = 2 if tier == "quick" else 20
    for rep in range(reps):
        for qt in common.QTYPES:
            for (kind, ord_) in steps:
                de = rng.choice(common.DOWNENCS)
                if de == "Raw" and qt not in ("TXT", "NULL", "PRIVATE"):
                    de = None
                sp.append({"seed": seed * 100000 + 50000 + k, "sess": {"qtype": qt, "downenc": de, "lazy": rng.choice([0, 1])},
                           "pkts": PKTS, "dur_ms": 5000, "hs_limit_ms": 200000,
                           # cut-down variants as the FIRST reply to several successive queries of this kind (a reply with
                           # a stale id is decoded too, but only a matching one shows what the decoder made of it)
                           "plan": [{"kind": kind, "k": ord_ + j, "n": 2, "mode": "prepend", "what": "trunc"}
                                    for j in range(4)],
                           "label": "cres/%s/%s%d/%d" % (qt, kind, ord_, rep)})
                k += 1
    results = vcheck.parallel(_residue_run, [(s, modes) for s in sp])
    common.judge(chk, results, "TraceMonResidue", "TraceMonResidue.cfg", "residue",
                 sigfn=lambda r, rej: "client:%s:%s" % (r["spec"]["sess"]["qtype"], r["spec"]["plan"][0]["kind"]), key="c12")
    chk.cov["client_runs"] = len(results)
    chk.cov["client_datagrams"] = sum(r["stats"]["pairs"] for r in results)
    chk.cov["evaluations"] = chk.cov.get("evaluations", 0) + chk.cov["client_datagrams"]
    chk.cov["distinct_nontrivial"] = chk.cov.get("distinct_nontrivial", 0) + len(results)
    return results
