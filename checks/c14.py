"""C14  The server never sends unsolicited or surplus DNS answers; holds at most two queries per session."""
import json

import vcheck
from checks import common


def race_specs(tier, seed):
    """The 20 ms window of the send-real-soon slot: the last fragment of an upstream packet parks its query there; a tun
    packet for the session (2..18 ms later) or the client's next query arrives before the timer does."""
    out = []
    for i in range(8 if tier == "quick" else 60):
        pk = []
        t = 300
        for j in range(14):
            d = 2 + (3 * j + i) % 17
            size = [40, 20, 300, 90][(i + j) % 4]
            pk.append([t, "C0", "S", "rand", size])
            pk.append([t + d // 2 if j % 3 == 2 else t, "C0", "S", "text", 30])        # a second upstream packet right behind
            pk.append([t + d, "S", "C0", ["rand", "text"][j % 2], [30, 200, 700][(i + j) % 3]])
            t += 900 + 37 * j
        out.append({"seed": seed * 100000 + 3000 + i,
                    "sess": {"qtype": common.QTYPES[i % 7], "lazy": 1, "fragsize": [None, 100, 300][i % 3],
                             "maxlen": [None, 120][i % 2]},
                    "relay": {"latency": [1000, 300, 4000][i % 3]} if False else {}, "pkts": pk, "dur_ms": t + 8000,
                    "label": "race%d" % i})
    return common.fit_frag(out)


def main(tier):
    chk = vcheck.Check("C14", "model_checking", tier)
    seed = vcheck.seed()
    common.model_step(chk, "C14", tier)
    sp = common.transfer_specs(tier, seed + 14) + common.dupspell_specs(tier, seed + 14) + common.retype_specs(tier, seed + 14) + \
        race_specs(tier, seed + 14)
    results = common.run_specs(sp, ["C14", "TSRV", "TCLI"])
    common.judge(chk, results, "TraceMonAnswers", "TraceMonAnswers.cfg", "answers", key="C14")
    common.bind_tunnel(chk, results)
    # the scripted peers' histories (TLC-generated from Session.tla: every command with every argument, also refused and
    # malformed ones, from owners and strangers) under the same monitor: no request gets two answers either
    from checks import sessions
    hs = sessions.specs(tier, seed + 14, chk)
    if tier == "quick":
        hs = hs[:120] + hs[-40:]
    for h in hs:
        h["c14"] = True
        h["label"] = "s" + h["label"]
    hres = sessions.run(hs)
    # (only the first sentence of the property for these: a scripted peer's query may be one the server drops unanswered)
    common.judge(chk, hres, "TraceMonAnswers", "TraceMonAnswers_lax.cfg", "answers:scripted", key="C14")
    chk.cov["scripted_histories"] = len(hres)
    chk.cov["scripted_answers_judged"] = sum(r["stats"].get("answers", 0) for r in hres)
    chk.cov["evaluations"] = sum(r["stats"].get("answers", 0) for r in results)
    chk.cov["runs"] = len(results)
    chk.cov["queries_received"] = sum(r["stats"].get("queries", 0) for r in results)
    chk.cov["distinct_nontrivial"] = len({r["label"] for r in results
                                          if common.fault_count(r) > 0 and r["stats"].get("answers", 0) > 20})
    chk.cov["rule"] = ("one evaluation = one DNS answer emitted by the real server in a simulated run, judged by "
                       "MonAnswers; non-trivial = distinct (config, schedule) runs with > 20 answers and at least "
                       "one dropped/duplicated/delayed/re-asked datagram")
    for r in results[:2]:
        chk.sample({"label": r["label"], "events": r["C14"][60:72]})
    chk.assumptions += common.ASSUME_SIM
    return chk.finish()


def replay(path):
    b = json.load(open(path))
    r = common._run_one((b["bundle"]["spec"], ("C14",)))
    print(json.dumps(r["C14"], indent=0)[:6000])
    return 0
