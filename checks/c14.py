"""C14  The server never sends unsolicited or surplus DNS answers; holds at most two queries per session."""
import json

import vcheck
from checks import common


def main(tier):
    chk = vcheck.Check("C14", "model_checking", tier)
    seed = vcheck.seed()
    common.model_step(chk, "C14", tier)
    sp = common.transfer_specs(tier, seed + 14) + common.dupspell_specs(tier, seed + 14)
    results = common.run_specs(sp, ["C14", "TSRV", "TCLI"])
    common.judge(chk, results, "TraceMonAnswers", "TraceMonAnswers.cfg", "answers", key="C14")
    common.bind_tunnel(chk, results)
    chk.cov["evaluations"] = sum(r["stats"].get("answers", 0) for r in results)
    chk.cov["runs"] = len(results)
    chk.cov["queries_received"] = sum(r["stats"].get("queries", 0) for r in results)
    chk.cov["distinct_nontrivial"] = len({r["label"] for r in results
                                          if common.fault_count(r) > 0 and r["stats"].get("answers", 0) > 20})
    chk.cov["rule"] = ("one evaluation = one DNS answer emitted by the real server in a simulated run, judged by "
                       "MonAnswers; non-trivial = distinct (config, schedule) runs with > 20 answers and at least "
                       "one dropped/duplicated/delayed/re-asked datagram")
    for r in results[:2]:
        chk.sample({"label": r["label"], "events": r["C14"][60:72]})
    chk.assumptions += common.ASSUME_SIM
    return chk.finish()


def replay(path):
    b = json.load(open(path))
    r = common._run_one((b["bundle"]["spec"], ("C14",)))
    print(json.dumps(r["C14"], indent=0)[:6000])
    return 0
