"""C18  Tunnel address pool: distinct in-subnet addresses, never the server's.

M/T: spec/AddrPool.tla (count = min(16, 2^(32-m) - 3); addresses pairwise distinct, inside the subnet, not the server's,
     network or broadcast address; lookup finds exactly the live logged-in owner; masks outside 8..30 refused).
     The lookup half is also an invariant (LookupExact) of Session.tla, model-checked with C04.
G: drv_pool calls the real init_users() for every host position of /16../30 (thorough; /20../30 quick) and boundary +
   random positions of /8../15, and find_user_by_ip() under generated slot states; the real main() is started with
   masks 0..33 to observe the range check; real sessions log in on servers whose tunnel networks make long dotted quads
   and the address the login reply tells the client is compared with the slot's (Told events); the address in the login reply of real sessions is judged by C04's monitor.
T: TLC evaluates every recorded call against AddrPool.tla (TraceAddrPool).
"""
import json
import os

import vcheck
import world as W
from checks import common, funcs


def range_event(mask):
    import runs
    w = None
    started = False
    try:
        w = W.World(runs.bdir(), seed=mask + 1, tag="rg%d" % mask)
        w.spawn("S", "S", ["-f", "-4", "-P", "pw", "10.0.0.1/%d" % mask, "t.example.com"])
        w.run_until(t=w.now + 1000)
        started = w.insts["S"].state == "sel"
    except (W.KernelDied, W.KernelHang):
        pass
    finally:
        if w is not None:
            w.close()
    return {"e": "Range", "mask": mask, "started": started}


NETS = [("10.0.0.1", 27), ("192.168.100.100", 27), ("172.100.200.254", 28), ("100.100.100.129", 25), ("192.168.255.254", 24),
        ("10.200.100.5", 16), ("203.113.255.250", 29), ("198.151.100.130", 30), ("10.0.0.5", 27), ("250.250.250.250", 26)]


def told_events(arg):
    """Real sessions on servers whose tunnel network makes long dotted quads: every slot logs in and the address the
    login reply tells the client is compared with the slot's address."""
    import runs
    import proto
    import dnsmsg as D
    k, (srv, mask) = arg
    evs = []
    w = None

    def quad(t):
        p = t.split(".")
        if len(p) != 4 or not all(x.isdigit() and str(int(x)) == x and int(x) < 256 for x in p):
            return []
        return [int(x) for x in p]
    try:
        w = W.World(runs.bdir(), seed=k + 1, tag="tl%d" % k)
        w.spawn("S", "S", ["-f", "-4", "-P", "pw", "%s/%d" % (srv, mask), "t.example.com"])
        w.run_until(t=w.now + 1000)
        got = []
        # requests that must not create a session: version requests with another protocol version, a truncated one
        noise = [0, 1, 3, 17][k % 4]
        for j in range(noise):
            src = ("10.9.3.%d" % (j + 1), 5400 + j)
            w.endpoints[src] = lambda wd, serial, s, d, data: None
            name = proto.q_version(900 + j, version=[0x00000501, 0x00000503, 0, 0xFFFFFFFF, 0x02050000][j % 5]) if j % 6 != 5 \
                else proto.q_version(900 + j)[:4]
            w.send(src, (W.SERVER_IP, 53), D.build_query(900 + j, proto.qname(name, "t.example.com"), D.T_NULL, edns=False),
                   "noise")
            w.run_until(t=w.now + 3000)
        created = 0
        toldset = set()
        for u in range(17):
            src = ("10.9.2.%d" % (u + 1), 5300 + u)
            w.endpoints[src] = lambda wd, serial, s, d, data: got.append(data)
            del got[:]
            w.send(src, (W.SERVER_IP, 53), D.build_query(100 + u, proto.qname(proto.q_version(u), "t.example.com"), D.T_NULL,
                                                         edns=False), "peer")
            w.run_until(t=w.now + 3000)
            pl = proto.decode_answer(D.parse(got[-1])) if got else None
            if not pl or pl[:4] != b"VACK" or len(pl) < 9:
                break
            seed = int.from_bytes(pl[4:8], "big", signed=True)
            uid = pl[8]
            created += 1
            del got[:]
            w.send(src, (W.SERVER_IP, 53), D.build_query(200 + u, proto.qname(proto.q_login(uid, proto.login_hash(b"pw", seed), u),
                                                                             "t.example.com"), D.T_NULL, edns=False), "peer")
            w.run_until(t=w.now + 3000)
            pl = proto.decode_answer(D.parse(got[-1])) if got else None
            if not pl:
                continue
            f = pl.decode("latin-1").split("-")
            us = [x for x in w.users() if x["u"] == uid]
            if len(f) != 4 or not us:
                continue
            toldset.add(f[1])
            evs.append({"e": "Told", "srv": quad(srv), "mask": mask, "slot": quad(us[0]["tunip"]), "told": quad(f[1]),
                        "toldsrv": quad(f[0]), "text": pl.decode("latin-1")})
        evs.append({"e": "Capacity", "mask": mask, "created": created, "told": len(toldset), "noise": noise})
    except (W.KernelDied, W.KernelHang):
        pass
    finally:
        if w is not None:
            w.close()
    return evs


def main(tier):
    chk = vcheck.Check("C18", "exploration", tier)
    seed = vcheck.seed() + 18
    q = tier == "quick"
    ns = 16
    lo = 20 if q else 16
    argsets = [["pool", lo, 30, sh, ns, seed] for sh in range(ns)] + \
              [["sample", seed + i, 20 if q else 400] for i in range(4)] + \
              [["lookup", seed + 10 + i, 300 if q else 5000] for i in range(4)]
    prod = funcs.produce("drv_pool", argsets)
    funcs.san_failures(chk, prod, "pool")
    files = [p for p, n, rc, err in prod if n > 0]
    rng_evs = vcheck.parallel(range_event, list(range(0, 34)))
    rpath = os.path.join(vcheck.scratch(), "range-%d.ndjson" % os.getpid())
    with open(rpath, "w") as f:
        for e in rng_evs:
            f.write(json.dumps(e) + "\n")
    files.append(rpath)
    told = vcheck.parallel(told_events, list(enumerate(NETS)))
    tpath = os.path.join(vcheck.scratch(), "told-%d.ndjson" % os.getpid())
    with open(tpath, "w") as f:
        for evs in told:
            for e in evs:
                f.write(json.dumps(e) + "\n")
    if any(told):
        files.append(tpath)
    chk.cov["login_replies_judged"] = sum(len(x) for x in told)
    _, dn = funcs.survey(chk, files, lambda ev: ev.get("e") in ("Pool", "Range", "Told") or ev.get("ret", 99) != 99)
    out = funcs.judge_files(chk, "TraceAddrPool", "TraceAddrPool.cfg", files, "pool",
                            sigfn=lambda ev: "%s:/%s" % (ev.get("e"), ev.get("mask", "")))
    chk.cov["evaluations"] = out["events"]
    chk.cov["exhaustive"] = True
    chk.cov["exhaustive_what"] = "every host position of every subnet size /%d../30" % lo
    chk.cov["masks_started"] = [e["mask"] for e in rng_evs if e["started"]]
    chk.cov["distinct_nontrivial"] = dn
    chk.cov["rule"] = ("one evaluation = one init_users() / find_user_by_ip() call or one server start with a given mask, "
                       "judged by TLC; non-trivial = distinct pool / range events and lookups that found an owner")
    chk.assumptions += ["TLC/JVM trusted; find_user_by_ip reads the real clock: ages are kept >= 3 s away from the 60 s boundary"]
    return chk.finish()


def replay(path):
    print(json.dumps(json.load(open(path))["bundle"], indent=0)[:3000])
    return 0
