"""C09  Downstream answers decode exactly (or to a prefix), monotonically in size.

M/T: spec/Downstream.tla: the extracted bytes are the payload, a proper prefix or nothing (TLC regenerates the payload
     from (kind, seed, len) and compares bytes / a position-weighted checksum), and once a length is not delivered exactly
     no larger length is (per ascending sweep of one (type, codec, name length, content)).
G: drv_down runs the REAL pipe: write_dns() of iodined.c (the driver #includes the program's .c file) -> wire bytes ->
   read_dns_withq()/dns_namedec() of client.c, for payload lengths 2..4096 (thorough: every length; quick: every 16th +
   boundaries) x {NULL, PRIVATE, TXT, SRV, MX, CNAME, A} x {T,S,U,V,R} (R with a host-name type is served as Base32) x {shortest, longest} query name x
   {all-0x00, all-0xFF, probe pattern, pseudo-random}.
"""
import json

import vcheck
from checks import common, funcs


def main(tier):
    chk = vcheck.Check("C09", "exploration", tier)
    seed = vcheck.seed() + 9
    q = tier == "quick"
    ns = 64
    prod = funcs.produce("drv_down", [[seed, sh, ns, 16 if q else 1] for sh in range(ns)])
    funcs.san_failures(chk, prod, "down")
    files = [p for p, n, rc, err in prod if n > 0]
    # every eighth sweep again with the programs compiled for an unsigned-char platform (-funsigned-char)
    prod_u = funcs.produce("drv_down", [[seed + 1, sh, ns, 16 if q else 4] for sh in range(0, ns, 8)], flavour="uchar")
    funcs.san_failures(chk, prod_u, "down-uchar")
    files += [p for p, n, rc, err in prod_u if n > 0]
    _, dn = funcs.survey(chk, files, lambda ev: ev.get("e") == "Down" and ev.get("glen", 0) > 2)
    out = funcs.judge_files(chk, "TraceDownstream", "TraceDownstream.cfg", files, "down",
                            sigfn=lambda ev: "qt%s:%s:%s" % (ev.get("qt"), ev.get("codec"),
                                                            "differs" if ev.get("glen", 0) <= ev.get("len", 0) else "longer"))
    chk.cov["evaluations"] = out["events"]
    chk.cov["sweeps"] = 7 * 5 * 2 * 4
    chk.cov["exhaustive"] = not q
    chk.cov["exhaustive_what"] = ("every payload length 2..4096" if not q else "payload lengths 2..40, every 16th, and boundaries") + \
        " x 7 record types x 5 downstream codecs x 2 name lengths x 4 contents"
    chk.cov["distinct_nontrivial"] = dn
    chk.cov["rule"] = ("one evaluation = one payload pushed through the real write_dns -> read_dns_withq pipe and judged by TLC; "
                       "non-trivial = distinct events in which more than 2 bytes were delivered")
    chk.assumptions += ["TLC/JVM trusted; the driver reaches the static functions by #including iodined.c / client.c"]
    return chk.finish()


def replay(path):
    print(json.dumps(json.load(open(path))["bundle"], indent=0)[:3000])
    return 0
