"""C11  Automatic negotiation only selects settings that actually work on the path.

M: spec/Negotiation.tla: the client's handshake decision procedure against every relay of the product family; TLC checks
   Sound (everything selected survives the relay) and Complete (success whenever Base32 + 512-byte answers pass for a
   supported type) over the whole family.
G: the REAL client and server through each simulated relay of the family {case} x {8-bit} x {punctuation} (separately for
   query names and answer names/text) x {allowed type prefixes} x {answer size limit} x {EDNS0}; autodetected and forced
   -T / -O; quick: a covering sample, thorough: the full family.
T: completeness by MonNegotiation; soundness by offering packets on both sides after the handshake through the same
   relay: MonProgress (clean mode: exactly once, in order, within 30 s) and MonIntegrity.
B: the settings the real handshake negotiated are compared with Negotiation.tla's prediction (drift only).
"""
import itertools
import json
import random

import dnsmsg as D
import vcheck
from checks import common

CASES = ["keep", "lower", "upper", "random"]
EIGHT = ["clean", "strip", "reject"]
PUNCT = ["keep", "plus", "under"]
TYPEORDER = ["NULL", "PRIVATE", "TXT", "SRV", "MX", "CNAME", "A"]
LIMITS = [None, 4096, 1232, 512]
# includes large incompressible packets offered on both sides at the same moment: full downstream fragments then travel in
# answers to full-length upstream data queries - the largest answers this path will ever have to carry
PKTS = [[200, "C0", "S", "rand", 300], [260, "S", "C0", "rand", 700], [900, "C0", "S", "text", 1100],
        [1500, "S", "C0", "ff", 1100], [2500, "C0", "S", "rand", 40], [2600, "S", "C0", "zero", 1300],
        [4000, "C0", "S", "rand", 1400], [4000, "S", "C0", "rand", 1400], [9000, "S", "C0", "rand", 1400],
        [9001, "C0", "S", "rand", 1400]]


def family():
    """every relay of the product family (types: every non-empty suffix of the probe order = 'refuses the first k types')"""
    for qc, q8, qp, ac, a8, ap, k, lim, edns in itertools.product(CASES, EIGHT, PUNCT, CASES, EIGHT, PUNCT, range(7), LIMITS,
                                                               [True, False]):
        yield {"qcase": qc, "q8": q8, "qpunct": qp, "acase": ac, "a8": a8, "apunct": ap,
               "types": [D.TYPENUM[t] for t in TYPEORDER[k:]], "limit": lim, "edns": edns}


def decision_class(r):
    """The branch of the handshake decision procedure (as modelled in spec/Negotiation.tla) this relay exercises:
    record-type class, outcome of the upstream bounce tests, outcome of each downstream codec test."""
    first = TYPEORDER.index(D.TYPENAMES[r["types"][0]]) + 1
    tclass = "raw" if first == 1 else "txt" if first in (2, 3) else "host"
    keepq = r["qcase"] == "keep"
    up = "b32" if not keepq else "b128" if r["q8"] == "clean" else "b64" if r["qpunct"] != "plus" else \
        "b64u" if r["qpunct"] != "under" else "b32"
    keepa = r["acase"] == "keep"
    tests = (keepa and r["apunct"] != "plus", keepa and r["apunct"] != "under", keepa and r["a8"] == "clean",
             keepa and r["a8"] == "clean" and r["apunct"] != "under")
    return (tclass, up, tests, r["limit"] in (512, 1232) or not r["edns"])


def specs(tier, seed):
    rng = random.Random(seed)
    fam = list(family())
    if tier == "quick":
        # model-guided sample: at least two relays from every decision class of Negotiation.tla, the rest random
        classes = {}
        for r in fam:
            classes.setdefault(decision_class(r), []).append(r)
        pick = []
        for k in sorted(classes, key=str):
            pick += rng.sample(classes[k], min(2, len(classes[k])))
        pick += rng.sample(fam, max(0, 330 - len(pick)))
        # make sure every value of every dimension occurs with every value of every other dimension at least once
        for (d1, v1s), (d2, v2s) in itertools.combinations([("qcase", CASES), ("q8", EIGHT), ("qpunct", PUNCT), ("acase", CASES),
                                                            ("a8", EIGHT), ("apunct", PUNCT), ("limit", LIMITS)], 2):
            for v1 in v1s:
                for v2 in v2s:
                    if not any(r[d1] == v1 and r[d2] == v2 for r in pick):
                        pick.append(rng.choice([r for r in fam if r[d1] == v1 and r[d2] == v2]))
    else:
        pick = fam if len(fam) <= 80000 else rng.sample(fam, 80000)
    nauto = len(pick)
    pick = pick + rng.sample(fam, 60 if tier == "quick" else len(fam) // 5)      # forced -T / -O on top
    out = []
    for i, relay in enumerate(pick):
        forced = i >= nauto
        sess = {"qtype": None, "downenc": None, "lazy": rng.choice([0, 1])}
        if i % 3 == 2:
            sess["occupy"] = 10 + (i // 3) % 6      # userid 10..15: a hex LETTER leads every data query name
        elif i % 3 == 1:
            # the client's slot had an earlier tenant (clean path: Base128 both ways, immediate mode, large fragments)
            sess["prior"] = True
        if forced:
            sess["qtype"] = rng.choice(TYPEORDER)
            sess["downenc"] = rng.choice([None, "Base32", "Base64", "Base64u", "Base128", "Raw"])
            if sess["downenc"] == "Raw" and sess["qtype"] not in ("TXT", "NULL", "PRIVATE"):
                sess["downenc"] = None
        out.append({"seed": seed * 1000000 + i, "sess": sess, "relay": relay, "mode": "clean", "pkts": PKTS,
                    "dur_ms": 40000, "premise": not forced, "label": "relay%d%s" % (i, "/forced" if forced else "")})
    return out


def survives_down(codec, qtype, relay):
    """Ground truth, independent of the client: does this downstream codec pass this relay for this record type?
    (the relay model leaves NULL/PRIVATE rdata alone and rewrites names and TXT strings)"""
    if qtype in ("NULL", "PRIVATE"):
        return True
    keepcase = relay["acase"] == "keep"
    if codec == "T":
        return True
    if codec == "S":
        return keepcase and relay["apunct"] != "plus"
    if codec == "U":
        return keepcase and relay["apunct"] != "under"
    if codec == "V":
        return keepcase and relay["a8"] == "clean"
    if codec == "R":
        return keepcase and relay["a8"] == "clean" and relay["apunct"] == "keep"
    return False


def sound_sig(r, rej):
    neg = r["stats"].get("negotiated") or {}
    de = chr(neg.get("downenc") or 84)
    relay = r["spec"]["relay"]
    forced = r["spec"]["sess"].get("downenc") is not None
    surv = survives_down(de, r["stats"].get("qtype_used"), relay)
    if forced:
        # (the configuration is part of the signature: a forced codec that is switched to untested on ANOTHER kind of path
        #  or with another way of choosing the fragment size is a different failure)
        frag = "given" if r["spec"]["sess"].get("fragsize") else "probed"
        return "forced-downenc:%s:%s:survives=%s:acase=%s:a8=%s:apunct=%s:frag=%s" % (
            de, r["stats"].get("qtype_used"), surv, "keep" if relay["acase"] == "keep" else "folds", relay["a8"],
            relay["apunct"], frag)
    return "auto:down=%s:survives=%s:acase=%s:a8=%s:apunct=%s" % (de, surv, relay["acase"], relay["a8"], relay["apunct"])


def main(tier):
    chk = vcheck.Check("C11", "model_checking", tier)
    seed = vcheck.seed() + 11
    common.model_step(chk, "C11", tier)
    sp = specs(tier, seed)
    results = common.run_specs(sp, ["C11", "C02", "C01"])
    common.judge(chk, results, "TraceMonNegotiation", "TraceMonNegotiation.cfg", "negotiation:complete", key="C11")
    ok = [r for r in results if r["stats"].get("handshake")]
    common.judge(chk, ok, "TraceMonProgress", "TraceMonProgress.cfg", "negotiation:sound", sigfn=sound_sig, key="C02",
                 max_rejects=100000)
    common.judge(chk, ok, "TraceMonIntegrity", "TraceMonIntegrity.cfg", "negotiation:integrity", key="C01")
    # binding: what the real handshake settled on vs. Negotiation.tla's prediction (drift only)
    limmap = {None: 100, 4096: 16, 1232: 8, 512: 4}
    encmap = {"Base32": "b32", "Base64": "b64", "Base64u": "b64u", "Base128": "b128"}
    omap = {None: "auto", "Base32": "T", "Base64": "S", "Base64u": "U", "Base128": "V", "Raw": "R"}
    negs = []
    for r in results:
        rl = r["spec"]["relay"]
        n = r["stats"].get("negotiated") or {}
        first = 1 + TYPEORDER.index(D.TYPENAMES[rl["types"][0]])
        rec = {k: rl[k] for k in ("qcase", "q8", "qpunct", "acase", "a8", "apunct")}
        rec.update(first=first, limit=limmap[rl["limit"]], edns=rl["edns"])
        hs = bool(r["stats"].get("handshake"))
        negs.append([{"e": "Neg", "relay": rec, "fT": r["spec"]["sess"]["qtype"] or "auto",
                      "fO": omap[r["spec"]["sess"]["downenc"]], "ok": hs,
                      "qtype": str(r["stats"].get("qtype_used")) if hs else "none",
                      "upenc": encmap.get(n.get("enc"), "b32") if hs else "b32",
                      "downenc": (chr(n["downenc"]) if n.get("downenc") else "T") if hs else "T"}])
    bout = vcheck.validate_executions("TraceNegotiation", "TraceNegotiation.cfg", negs, max_rejects=100000)
    chk.cov["layerA_bound_traces"] = bout["validated"]
    chk.cov["drift_count"] = len(bout["rejected"])
    chk.cov["drift"] = [x["event"] for x in bout["rejected"][:6]]
    if bout["broken"]:
        chk.notes["binding_broken"] = bout["broken"][:400]
    neg = {}
    for r in ok:
        k = json.dumps([r["stats"].get("qtype_used"), r["stats"].get("negotiated")], sort_keys=True)
        neg[k] = neg.get(k, 0) + 1
    chk.cov["evaluations"] = len(results)
    chk.cov["handshakes_succeeded"] = len(ok)
    chk.cov["distinct_negotiation_outcomes"] = len(neg)
    chk.cov["distinct_nontrivial"] = len({json.dumps(r["spec"]["relay"], sort_keys=True) for r in ok})
    chk.cov["packets_must_deliver"] = sum(r["stats"].get("must", 0) for r in ok)
    chk.cov["family_size"] = 4 * 3 * 3 * 4 * 3 * 3 * 7 * 4 * 2
    chk.cov["rule"] = ("one evaluation = one real handshake + transfer through one relay of the family; non-trivial = distinct "
                       "relays whose handshake succeeded (soundness judged on the packets offered afterwards)")
    for r in results[:2]:
        chk.sample({"label": r["label"], "relay": r["spec"]["relay"], "sess": r["spec"]["sess"],
                    "negotiated": r["stats"].get("negotiated"), "qtype": r["stats"].get("qtype_used")})
    chk.assumptions += common.ASSUME_SIM
    return chk.finish()


def replay(path):
    b = json.load(open(path))
    r = common._run_one((b["bundle"]["spec"], ("C11", "C02", "C01")))
    print(json.dumps({"stats": r["stats"], "C11": r["C11"], "C02": r["C02"][:40]}, indent=0)[:6000])
    return 0
