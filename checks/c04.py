"""C04  Sessions are isolated: source check, routing by tunnel address, slot ownership.

M: TLC model-checks spec/Session.tla (SpoofRefused, RebindOnlyByRawLogin, Routing, ForwardOnlyToOwner, NoTakeover,
   ExpiredRefused, ExpiredReusable, LookupExact).
G: TLC-generated histories (incl. ticks of 29..61 s around the expiry) executed on the real iodined.
T: spec/MonIsolation.tla judges every request / downstream datagram / slot allocation.
B: binding of the executions to Session.tla.
"""
import json

import script
import vcheck
from checks import common, sessions


def main(tier):
    chk = vcheck.Check("C04", "model_checking", tier)
    seed = vcheck.seed() + 4
    common.model_step(chk, "C04", tier)
    sp = sessions.specs(tier, seed, chk)
    results = sessions.run(sp)
    groups = {}
    for r in results:
        groups.setdefault((r["spec"]["users"], r["spec"]["check_ip"]), []).append(r)
    for (users, ip), rs in groups.items():
        common.judge(chk, rs, "TraceMonIsolation", "TraceMonIsolation_u%d_%s.cfg" % (users, "TRUE" if ip else "FALSE"),
                     "isolation", sigfn=lambda r, rej: "%s:%s" % (rej["event"].get("e"), rej["event"].get("c", "")),
                     key="c04")
    sessions.bind(chk, results)
    sessions.health(chk, results, "isolation")
    spoof = down = newsess = 0
    for r in results:
        for e in r["c04"]:
            if e["e"] == "Req" and e["reply"] == "BADIP":
                spoof += 1
            elif e["e"] == "Down":
                down += 1
            elif e["e"] == "NewSession":
                newsess += 1
    chk.cov["evaluations"] = sum(len(r["c04"]) for r in results)
    chk.cov["refused_requests"] = spoof
    chk.cov["downstream_datagrams_judged"] = down
    chk.cov["slot_allocations_judged"] = newsess
    chk.cov["histories"] = len(results)
    chk.cov["distinct_nontrivial"] = len({r["label"] for r in results
                                          if r["stats"].get("vack", 0) >= 2 and r["stats"].get("down", 0) >= 1})
    chk.cov["rule"] = ("one evaluation = one monitor event (request / allocation / downstream datagram) of the real "
                       "iodined; non-trivial = histories with >= 2 sessions allocated and >= 1 downstream datagram")
    for r in results[:2]:
        chk.sample({"label": r["label"], "c04": r["c04"][:10]})
    chk.assumptions += common.ASSUME_SIM
    return chk.finish()


def replay(path):
    b = json.load(open(path))
    r = script.execute(b["bundle"]["spec"])
    print(json.dumps({"c04": r["c04"], "stats": r["stats"], "san": r["san"]}, indent=0)[:8000])
    return 0
