"""C07  Base32/64/64u/128 codecs are lossless, alphabet-pure and capacity-exact.

M: spec/Codec.tla defines the four codecs from the protocol document; TLC proves for the reference itself (all inputs of
   <= 2 bytes over 27 boundary byte values, thorough: all 256) losslessness, alphabet purity, case-insensitive Base32.
G: drv_codec calls the real entry points (base32_ops .. base128_ops incl. the sed-generated Base64u): all 1-byte inputs x
   all capacities, all (thorough) / a seeded 1/16 (quick) of the 65536 byte pairs, byte pairs in every block position,
   lengths 0..4096 with zero / 0xFF / random contents at capacities {2n+2, full-1, random; every value for n <= 64},
   chunk loops, decoder capacity events with illegal characters.
T: TLC evaluates the C07 predicates of Codec.tla on every recorded call (TraceCodec); equality with the reference
   encoding is the binding step (drift only).
"""
import json

import vcheck
from checks import common, funcs


def main(tier):
    chk = vcheck.Check("C07", "exploration", tier)
    seed = vcheck.seed()
    res = vcheck.tlc("Codec", "Codec_mc.cfg" if tier == "quick" else "Codec_mc_full.cfg", workers=16, timeout=3000, heap="8g")
    chk.add_model("Codec reference theorem (ASSUME RefLossless)", res)
    if not res.ok:
        chk.broken.append("Codec.tla reference theorem failed: %s" % (res.violation or res.out[-500:]))
    ns = 16
    q = tier == "quick"
    argsets = []
    for sh in range(ns):
        argsets.append(["short", seed, sh, ns, 16 if q else 1])
        argsets.append(["pairs", seed + 1, sh, ns, 64 if q else 4])
        argsets.append(["long", seed + 2, sh, ns, 60 if q else 1])
        argsets.append(["dec", seed + 3, sh, ns, 4 if q else 1])
    prod = funcs.produce("drv_codec", argsets)
    funcs.san_failures(chk, prod, "codec")
    files = [p for p, n, rc, err in prod if n > 0]
    # a slice of the same on a platform where plain char is unsigned (-funsigned-char: ARM / PowerPC Linux)
    prod_u = funcs.produce("drv_codec", [[m, seed + 7 + k, 0, ns, st] for k, (m, st) in
                                         enumerate([("short", 16 if q else 4), ("pairs", 64 if q else 16), ("long", 60 if q else 8),
                                                    ("dec", 4 if q else 2)])], flavour="uchar")
    funcs.san_failures(chk, prod_u, "codec-uchar")
    files += [p for p, n, rc, err in prod_u if n > 0]
    _, dn = funcs.survey(chk, files, lambda ev: len(ev.get("in", ev.get("text", []))) >= 2 and ev.get("e") != "Dec")
    out = funcs.judge_files(chk, "TraceCodec", "TraceCodec_FALSE.cfg", files, "codec",
                            sigfn=lambda ev: "%s:%s:len%d:cap%s" % (ev.get("e"), ev.get("codec"), len(ev.get("in", ev.get("text", []))), ev.get("cap")))
    chk.cov["evaluations"] = out["events"]
    chk.cov["events_by_mode"] = {}
    for (p, n, rc, err), a in zip(prod, argsets):
        chk.cov["events_by_mode"][a[0]] = chk.cov["events_by_mode"].get(a[0], 0) + n
    chk.cov["distinct_nontrivial"] = dn
    chk.cov["exhaustive"] = not q
    chk.cov["exhaustive_what"] = ("all inputs of length 0 and 1 at all capacities; " +
                             ("a seeded 1/16 of all 65536 byte pairs" if q else "all 65536 byte pairs") + " per codec")
    chk.cov["rule"] = ("one evaluation = one recorded encoder / decoder / chunk-loop call judged by TLC; non-trivial = distinct "
                       "encoder / chunk-loop events whose input has at least 2 bytes")
    # binding: a sample of the same events against the reference encoding
    prod2 = funcs.produce("drv_codec", [["short", seed, 0, 8, 64], ["pairs", seed + 1, 0, 16, 256], ["long", seed + 2, 0, 64, 200]])
    d = funcs.judge_files(chk, "TraceCodec", "TraceCodec_TRUE.cfg", [p for p, n, rc, e in prod2 if n > 0], "codec", drift=True)
    chk.cov["drift_count"] = len(d["rejected"])
    chk.cov["drift"] = [json.dumps(x)[:300] for x in d["rejected"][:3]]
    chk.assumptions += ["TLC/JVM trusted; the alphabets' character order is a trusted constant (not in the protocol document)"]
    return chk.finish()


def replay(path):
    b = json.load(open(path))
    print(json.dumps(b["bundle"], indent=0)[:4000])
    return 0
