"""C02  Tunnel makes progress and recovers after network trouble (no wedge)."""
import json
import random

import vcheck
from checks import common

SIZES = [1, 20, 200, 600, 1100]


def pacing(rng, kind, npk):
    out = []
    t = 100
    for i in range(npk):
        side, dst = ("C0", "S") if (i % 2 == 0 or kind == "up") and kind != "down" else ("S", "C0")
        if kind == "burst":
            gap = 0 if i % 6 else 3000
        elif kind == "alt":
            gap = 700
        elif kind == "idle":
            gap = rng.choice([5000, 30000, 58000]) if i % 4 == 3 else 300
        else:
            gap = rng.choice([0, 10, 200, 1500])
        t += gap
        out.append([t, side, dst, rng.choice(["rand", "text", "zero", "ff"]), rng.choice(SIZES)])
    return out, t


def specs(tier, seed):
    rng = random.Random(seed)
    out = []
    n_cfg = 36 if tier == "quick" else 300
    cfgs = common.configs(n_cfg, seed + 2)
    kinds = ["burst", "alt", "idle", "rnd", "up", "down"]
    for i, (sess, relay) in enumerate(cfgs):
        kind = kinds[i % 6]
        npk = 40 if (i % 9 == 0) else 12
        pk, tend = pacing(rng, kind, npk)
        # one packet beyond the 16-fragment limit in the middle (optional delivery, must not wedge the rest)
        pk.insert(len(pk) // 2, [pk[len(pk) // 2][0], "C0", "S", "rand", 1400])
        relay = {k: v for k, v in relay.items() if k != "rewrite_id"}
        out.append({"seed": seed * 100000 + 200 + i, "sess": dict(sess), "relay": relay, "relay_hs_only": True,
                    "mode": "clean", "pkts": pk, "dur_ms": tend + 45000, "label": "clean%d/%s" % (i, kind)})
    # packets that need exactly 16 (the most the 4-bit fragment number allows), 15 and 2 fragments, in both directions,
    # with 0 / 1 bytes to spare in the last fragment: "fits in 16 fragments" is the property's own boundary
    for i in range(10 if tier == "quick" else 80):
        fs = [50, 64, 100, 150, 200, 70][i % 6]
        pk = []
        t = 200
        for j, (side, dst) in enumerate([("S", "C0"), ("C0", "S")] * 4):
            nfr, slack = [(16, 0), (16, 0), (15, 1), (16, 1), (2, 0), (15, 0), (16, 7), (1, 0)][(j + i) % 8]
            pk.append([t, side, dst, "frags:%d:%d" % (nfr, slack), 0])
            t += 6000
        out.append({"seed": seed * 100000 + 270 + i,
                    "sess": {"qtype": ["NULL", "TXT", "PRIVATE", "MX", "SRV"][i % 5], "lazy": i % 2, "fragsize": fs,
                             "maxlen": [None, 200, 160, 120][i % 4]},
                    "relay": {}, "mode": "clean", "pkts": pk, "dur_ms": t + 30000, "label": "frag16-%d" % i})
    # an outage of 2.2 .. 3.5 s that starts while an upstream packet is in flight, with further packets arriving on the
    # client's tun device during it (the client drains and drops them while it re-sends); afterwards both directions
    # must work again
    for i in range(8 if tier == "quick" else 60):
        t1 = 1000 + 40 * (i % 5)
        dur = [2200, 2600, 3100, 3500][i % 4]
        pk = [[400, "C0", "S", "rand", 100], [t1, "C0", "S", "rand", [600, 1100][i % 2]]]
        pk += [[t1 + 200 + 300 * j, "C0", "S", "text", 60 + j] for j in range(1 + i % 3)]
        pk += [[t1 + dur + 22000 + 700 * j, ["C0", "S"][j % 2], ["S", "C0"][j % 2], "rand", 200] for j in range(4)]
        out.append({"seed": seed * 100000 + 280 + i, "sess": {"qtype": common.QTYPES[i % 7], "lazy": i % 2}, "relay": {},
                    "mode": "faulty", "post_ms": t1 + dur + 20000, "blackout_ms": [["*", t1 + 2, t1 + dur]],
                    "pkts": pk, "dur_ms": t1 + dur + 60000, "label": "outage%d" % i})
    for i in range(4 if tier == "quick" else 30):
        pk, tend = pacing(rng, kinds[i % 6], 14)
        out.append({"seed": seed * 100000 + 290 + i, "sess": {"qtype": "NULL", "raw": True}, "relay": {},
                    "mode": "clean", "pkts": pk, "dur_ms": tend + 45000, "label": "cleanraw%d" % i})
    # packets for the client reach the server's tun device while the client is still in its handshake (after the login,
    # before the switch to raw mode / the end of the option negotiation); afterwards both directions must work
    for i in range(8 if tier == "quick" else 48):
        pk, tend = pacing(rng, kinds[i % 6], 10)
        sess = {"qtype": "NULL", "raw": True} if i % 4 != 3 else {"qtype": common.QTYPES[i % 7], "lazy": i % 2}
        out.append({"seed": seed * 100000 + 295 + i, "sess": dict(sess, hs_tun=1 + (i + i // 4) % 4), "relay": {},
                    "mode": "clean", "pkts": pk, "dur_ms": tend + 45000, "label": "hstun%d" % i})
    # steady traffic for well over a minute without a pause long enough for a keep-alive (the client pings only after
    # select() timed out): nothing but the tunnel's own data keeps the session alive
    for i in range(6 if tier == "quick" else 24):
        gap = [900, 700, 1500, 2500][i % 4]
        n = (100000 if i % 2 == 0 else 75000) // gap
        # upstream only / downstream only / alternating
        dirs = [("C0", "S"), ("S", "C0")]
        pk = [[300 + gap * j] + list(dirs[0] if i % 3 == 0 else dirs[1] if i % 3 == 1 else dirs[(j + i) % 2]) +
              [["text", "rand"][j % 2], 40 + (j * 7) % 150] for j in range(n)]
        sess = {"qtype": "NULL", "raw": True} if i % 4 != 3 else {"qtype": common.QTYPES[i % 7], "lazy": 1}
        out.append({"seed": seed * 100000 + 297 + i, "sess": sess, "relay": {}, "mode": "clean", "pkts": pk,
                    "dur_ms": 300 + gap * n + 40000, "label": "steady%d" % i})
    # one lost datagram in a busy tunnel: the query that carries (a fragment of) an upstream packet is lost while downstream
    # packets keep coming several times a second for most of a minute; the path is perfect otherwise.  The upstream packet
    # must still get through within the bound - the retransmission must not depend on the tunnel falling silent
    for i in range(8 if tier == "quick" else 48):
        gap = [300, 450, 200, 700][i % 4]
        t_up = 2000 + 37 * i
        pk = [[500 + gap * j, "S", "C0", ["text", "rand"][j % 2], 40 + (j * 11) % 120] for j in range(45000 // gap)]
        pk += [[t_up, "C0", "S", "rand", [60, 300, 700][i % 3]], [t_up + 4000, "C0", "S", "text", 80], [t_up + 9000, "C0", "S", "rand", 200]]
        pk.sort(key=lambda x: x[0])
        out.append({"seed": seed * 100000 + 298 + i,
                    "sess": {"qtype": common.QTYPES[i % 7], "lazy": 1 if i % 4 != 3 else 0, "fragsize": [None, 200][i % 2]},
                    "relay": {"hold_up": [{"useq": 1, "ufrag": [0, 0, 1][i % 3] if i % 3 != 2 or True else 0, "delay_us": -1, "count": 1}]},
                    "mode": "faulty", "post_ms": 0, "pkts": pk, "dur_ms": 90000, "label": "busyloss%d" % i})
    # fault prefix, heal, settle, then packets that must arrive
    n_f = 60 if tier == "quick" else 700
    fcfgs = common.configs(n_f, seed + 3)
    for i, (sess, relay) in enumerate(fcfgs):
        flen = rng.choice([5000, 15000, 30000, 40000])
        r = dict(relay)
        s = {"seed": seed * 100000 + 1000 + i, "sess": dict(sess), "relay": r, "mode": "faulty"}
        style = i % 4
        if style == 0:
            r.update(p_drop=rng.choice([0.1, 0.3, 0.5]), p_dup=rng.choice([0, 0.2]), p_delay=rng.choice([0, 0.2]))
            s["fault_ms"] = [0, flen]
        elif style == 1:
            a = rng.randrange(0, flen // 2)
            s["blackout_ms"] = [[rng.choice(["q", "a", "*"]), a, min(flen, a + rng.choice([3000, 10000, 20000]))]]
        elif style == 2:
            r.update(p_drop=0.15, p_dup=0.2, p_delay=0.2, p_dupid=0.25, max_delay=4000000)
            s["fault_ms"] = [0, flen]
        else:
            r.update(p_drop=0.6)
            s["fault_ms"] = [0, min(flen, 25000)]
        pre, _ = pacing(rng, "rnd", 8)
        post_ms = flen + 15000
        post, tend = pacing(rng, "alt", 6)
        pk = pre + [[post_ms + 200 + t, a, b, c, d] for t, a, b, c, d in post]
        s.update(pkts=pk, post_ms=post_ms, dur_ms=post_ms + tend + 35000, label="faulty%d/s%d" % (i, style))
        out.append(s)
    return common.fit_frag(out)


def main(tier):
    chk = vcheck.Check("C02", "model_checking", tier)
    seed = vcheck.seed()
    common.model_step(chk, "C02", tier)
    results = common.run_specs(specs(tier, seed), ["C02", "TSRV", "TCLI", "TRAW"])
    common.judge(chk, results, "TraceMonProgress", "TraceMonProgress.cfg", "progress",
                 sigfn=lambda r, rej: "%s:%s" % (r["spec"].get("mode"), rej["event"].get("e")), key="C02")
    common.bind_tunnel(chk, results)        # Layer A: the same runs as behaviours of Tunnel.tla / RawTunnel.tla (drift only)
    for r in results:
        if r["hang"]:
            # a program that stopped returning from a step, or that spins on a readable descriptor it never reads
            chk.violation("progress:wedge:%s" % ("livelock" if "livelock" in (r["error"] or "") else "hang"),
                          "run %s: %s" % (r["label"], r["error"]), {"spec": r["spec"]})
    chk.cov["evaluations"] = len(results)
    chk.cov["distinct_nontrivial"] = len({r["label"] for r in results if r["stats"].get("must", 0) >= 3})
    chk.cov["packets_accepted"] = sum(r["stats"].get("accepted", 0) for r in results)
    chk.cov["packets_must_deliver"] = sum(r["stats"].get("must", 0) for r in results)
    chk.cov["worst_delivery_latency_ms"] = max([r["stats"].get("worst_latency_ms", 0) for r in results] or [0])
    chk.cov["bound_ms"] = 30000
    chk.cov["handshake_failures"] = sum(1 for r in results if not r["stats"].get("handshake"))
    chk.cov["rule"] = ("one evaluation = one simulated run (clean path: strict exactly-once/in-order/deadline; faulty: "
                       "fault prefix <= 40 s, 15 s settle, then packets that must arrive within 30 s, no exit); "
                       "non-trivial = distinct runs with at least 3 packets under a delivery obligation")
    for r in results[:1] + results[-1:]:
        chk.sample({"label": r["label"], "events": r["C02"][:14]})
    chk.assumptions += common.ASSUME_SIM + ["virtual time: bound B = 30 s, settle S = 15 s (deliberately generous)"]
    return chk.finish()


def replay(path):
    b = json.load(open(path))
    r = common._run_one((b["bundle"]["spec"], ("C02",)))
    print(json.dumps(r["C02"], indent=0)[:8000])
    return 0
