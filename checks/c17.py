"""C17  Tunnel domain validation and query matching follow label boundaries exactly.

M/T: spec/Domain.tla, written from the statement: ValidDomain(s, allowWildcard) and Match(name, domain) in {-1} u Nat.
G: drv_domain calls the real check_topdomain()/query_datalen(): exhaustively over all strings of the alphabet
   {a,A,b,-,.,*,0} (validation to length 7 thorough / 5 quick; matching, names without '..', to length 8 thorough / 6
   quick, against 8 plain and wildcard domains), length-boundary cases (63/64-char labels, 128/129-char domains) and
   random long names up to 255; the real iodined -b additionally shows that a query is forwarded (= not treated as
   tunnel traffic) exactly when Match = -1.
T: TLC evaluates every recorded call against Domain.tla (TraceDomain).
"""
import json
import os
import random

import dnsmsg as D
import vcheck
import world as W
from checks import common, funcs


def dispatch_events(arg):
    import runs
    seed, dom = arg
    rng = random.Random(seed)
    evs = []
    w = None
    try:
        w = W.World(runs.bdir(), seed=seed, tag="dd%d" % seed)
        # (every other server runs with debug output on: the debug code sits in front of the dispatch decision)
        w.spawn("S", "S", ["-f", "-4", "-P", "pw", "-b", "5353"] + (["-D", "-D"] if seed % 2 else []) + ["10.0.0.1/24", dom])
        w.run_until(t=w.now + 1000)
        got = []
        w.endpoints[("127.0.0.1", 5353)] = lambda wd, serial, src, dst, data: got.append(data)
        w.endpoints[("10.9.2.1", 5301)] = lambda wd, serial, src, dst, data: None
        body = dom[2:] if dom.startswith("*.") else dom
        labs = body.split(".")
        for i in range(260):
            k = rng.randrange(8)
            pre = ["".join(rng.choice("abAB01-*") for _ in range(rng.randrange(1, 9))) for _ in range(rng.randrange(0, 3))]
            if k == 0:
                name = pre + labs
            elif k == 1:
                name = pre + ["x" + labs[0]] + labs[1:]            # suffix without label boundary
            elif k == 2:
                name = pre + [l.upper() if rng.random() < 0.5 else l for l in labs]
            elif k == 3:
                name = pre + labs[1:]                               # parent domain
            elif k == 4:
                name = pre + labs + ["org"]
            elif k == 5:
                name = labs
            elif k == 6:
                name = ["v" + "a" * rng.randrange(0, 20)] + ["lbl*" if rng.random() < 0.3 else "lbl"] + labs
            else:
                name = pre + [labs[0][:-1] or "q"] + labs[1:]
            if i % 9 == 8:
                # the domain's own text occurs twice (a resolver appending its search domain, a label that merely starts
                # like the domain): still tunnel traffic exactly when the name ENDS with the domain at a label boundary
                name = pre + [l.upper() if rng.random() < 0.3 else l for l in labs] + \
                    ([labs[0] + "xy"] + labs[1:] if rng.random() < 0.3 else []) + labs
            name = [n for n in name if n] or ["a"]
            bname = [n.encode("latin-1") for n in name]
            if i % 11 == 10 and len(labs) >= 2:
                # a byte that is not a dot exactly where a dot would make the name end with the domain: control
                # characters, bytes >= 0x80, a space (one label: <data><byte><first domain label>)
                sepb = bytes([rng.choice([0x01, 0x1f, 0x7f, 0x80, 0xe9, 0xff, 0x20, 0x2d])])
                bname = [b"vaaaaaaa" + sepb + labs[0].encode()] + [l.encode() for l in labs[1:]]
                if rng.random() < 0.5:
                    bname = [b"vaaaaaaa"] + [labs[0].encode() + sepb + labs[1].encode()] + [l.encode() for l in labs[2:]]
            del got[:]
            q = D.build_query(1000 + i, bname, rng.choice([D.T_NULL, D.T_TXT, D.T_A, D.T_NS, D.T_MX]),
                              edns=False)
            w.send(("10.9.2.1", 5301), (W.SERVER_IP, 53), q, "req")
            w.run_until(t=w.now + 3000)
            evs.append({"e": "Dispatch", "name": list(b".".join(bname)), "dom": [ord(c) for c in dom],
                        "forwarded": len(got) > 0})
    except (W.KernelDied, W.KernelHang) as ex:
        evs.append({"e": "Abort", "what": str(ex)[:200]})
    finally:
        if w is not None:
            w.close()
    return evs


def main(tier):
    chk = vcheck.Check("C17", "exploration", tier)
    seed = vcheck.seed() + 17
    q = tier == "quick"
    ns = 16
    vlen, mlen = (5, 6) if q else (7, 8)
    argsets = [["valid", vlen, sh, ns] for sh in range(ns)] + [["match", mlen, sh, ns] for sh in range(ns)] + \
              [["edge", seed + i, 300 if q else 3000] for i in range(4)]
    prod = funcs.produce("drv_domain", argsets)
    funcs.san_failures(chk, prod, "domain")
    files = [p for p, n, rc, err in prod if n > 0]
    doms = ["t.example.com", "*.t.example.com", "a.b", "*.x-1.org"]
    disp = vcheck.parallel(dispatch_events, [(seed * 10 + i, d) for i, d in enumerate(doms)])
    dpath = os.path.join(vcheck.scratch(), "dispatch-%d.ndjson" % os.getpid())
    with open(dpath, "w") as f:
        for evs in disp:
            for e in evs:
                f.write(json.dumps(e) + "\n")
    files.append(dpath)
    _, dn = funcs.survey(chk, files, lambda ev: (ev.get("e") == "Valid" and ev.get("ret") == 0) or (ev.get("e") == "Match" and max(ev.get("rets", [-1])) >= 0) or (ev.get("e") == "Match1" and ev.get("ret", -1) >= 0) or ev.get("e") == "Dispatch")
    out = funcs.judge_files(chk, "TraceDomain", "TraceDomain.cfg", files, "domain",
                            sigfn=lambda ev: "%s:%s" % (ev.get("e"), "".join(chr(c) for c in ev.get("s", ev.get("name", [])))[:24]))
    chk.cov["evaluations"] = out["events"]
    chk.cov["dispatch_events"] = sum(len(e) for e in disp)
    chk.cov["dispatch_forwarded"] = sum(1 for evs in disp for e in evs if e.get("forwarded"))
    chk.cov["exhaustive"] = True
    chk.cov["exhaustive_what"] = ("validation: all strings over {a,A,b,-,.,*,0} up to length %d with and without wildcard; "
                             "matching: all names without '..' up to length %d against 8 domains" % (vlen, mlen))
    chk.cov["distinct_nontrivial"] = dn
    chk.cov["rule"] = ("one evaluation = one check_topdomain()/query_datalen() call (matching events carry the results for "
                       "8 domains) or one dispatch decision of the real server, judged by TLC against Domain.tla; non-trivial = distinct events with a positive outcome (domain accepted / name matches some domain) or a dispatch decision")
    chk.assumptions += ["TLC/JVM trusted"] + common.ASSUME_SIM[:1]
    return chk.finish()


def replay(path):
    print(json.dumps(json.load(open(path))["bundle"], indent=0)[:3000])
    return 0
