"""C08  Upstream query names are legal, within the limit, and decode to what was sent.

M/T: spec/Hostname.tla (on top of Codec.tla and Domain.tla): legal DNS name (labels 1..63, <= 255 on the wire), at most L
     characters, ends in the tunnel domain at a label boundary, carries a non-empty payload prefix of exactly the reported
     length (decoded with the TLA+ reference decoder), and the server-side extraction returns exactly that prefix - also
     when the server serves the wildcard form of the domain.
G: drv_host calls the real build_hostname() and dns_encode -> dns_decode -> query_datalen -> unpack_data for every
   L in 100..255 x domain lengths 3..min(128, L-24) (thorough: every length; quick: boundaries + every 40th) x 4 codecs x
   payload lengths {1, 2, fit-1, fit, fit+1, 2048} (random / 0xFF / 0x00 contents), 5-character data header and
   1-character command header; the real client's queries in simulated sessions (-M 100/160/255, all codecs and types)
   give the wire events (version, login, codec tests, fragsize probes, pings, data chunks).
T: TLC evaluates every event against Hostname.tla.
"""
import json
import os

import vcheck
from checks import common, funcs


def _domain(n, k):
    """a tunnel domain of exactly n characters (labels of at most 63)"""
    labels = []
    left = n - 4            # ".com"
    while left > 0:
        ln = min(left, [63, 40, 17, 62][k % 4])
        if left - ln == 1:
            ln -= 1         # never leave room for a dot only
        labels.append("abcdefghij"[(k + len(labels)) % 10] * ln)
        left -= ln + 1
    return ".".join(labels) + ".com"


def margin_specs(tier, seed):
    """The real client with little room between the tunnel domain and the -M limit (24..41 characters): the limit binds
    every message of the handshake, not only data chunks (the handshake itself may fail - the names are judged)."""
    out = []
    Ls = [100, 101, 127, 152] if tier == "quick" else list(range(100, 169, 3)) + [152]
    k = 0
    for L in Ls:
        for margin in ((24, 25, 31, 32, 33, 39, 40, 41) if tier == "quick" else range(24, 42)):
            n = L - margin
            if n > 128 or n < 8:
                continue
            k += 1
            out.append({"seed": seed * 100000 + 50000 + k,
                        "sess": {"qtype": common.QTYPES[k % 7], "maxlen": L, "domain": _domain(n, k), "lazy": k % 2,
                                 "downenc": common.DOWNENCS[k % 5]},
                        "relay": {}, "pkts": [[300, "C0", "S", "rand", 300], [900, "S", "C0", "rand", 300]],
                        "dur_ms": 6000, "label": "margin/L%d/m%d" % (L, margin)})
    return out


def main(tier):
    chk = vcheck.Check("C08", "exploration", tier)
    seed = vcheck.seed() + 8
    q = tier == "quick"
    ns = 16
    prod = funcs.produce("drv_host", [[seed, sh, ns, 40 if q else 1] for sh in range(ns)])
    funcs.san_failures(chk, prod, "host")
    files = [p for p, n, rc, err in prod if n > 0]
    sp = common.transfer_specs(tier, seed, n_quick=28, n_thorough=200, dur_ms=12000, extra=False)
    sp = [s for i, s in enumerate(sp) if s["label"].endswith("/clean") or i % 5 == 0]
    sp += margin_specs(tier, seed)
    # chunk tails: upstream packets whose last chunk carries exactly 1, 2, 3 bytes (and a full one), every codec / limit
    for i in range(12 if q else 96):
        pk = [[300 + 1500 * j, "C0", "S", "frags:%d:t%d" % (2 + (i + j) % 3, [1, 2, 1, 3, 1, 57][(i + j) % 6]), 0] for j in range(5)]
        sp.append({"seed": seed * 100000 + 52000 + i, "uppackets": True,
                   "sess": {"qtype": common.QTYPES[i % 7], "maxlen": [None, 200, 140, 100][i % 4], "lazy": i % 2,
                            "downenc": common.DOWNENCS[i % 5]},
                   "relay": [{}, {"qcase": "lower"}, {"q8": "strip"}, {"q8": "strip", "qpunct": "plus"}][(i // 4) % 4],
                   "pkts": pk, "dur_ms": 12000, "label": "tails%d" % i})
    results = common.run_specs(sp, ["C08"])
    wpath = os.path.join(vcheck.scratch(), "wire-%d.ndjson" % os.getpid())
    nw = 0
    with open(wpath, "w") as f:
        for r in results:
            for e in r["C08"]:
                f.write(json.dumps(e) + "\n")
                nw += 1
    files.append(wpath)
    _, dn = funcs.survey(chk, files, lambda ev: ev.get("e") == "Host" and ev.get("paylen", 0) > 2)
    out = funcs.judge_files(chk, "TraceHostname", "TraceHostname.cfg", files, "host",
                            sigfn=lambda ev: "%s:L%s:%s" % (ev.get("e"), ev.get("L"), ev.get("codec", "")))
    chk.cov["evaluations"] = out["events"]
    chk.cov["wire_names_judged"] = nw
    chk.cov["sim_runs"] = len(results)
    chk.cov["exhaustive"] = not q
    chk.cov["exhaustive_what"] = ("all L in 100..255 x " + ("domain lengths {3, 4, max-1, max} + every 40th" if q else "every domain length") +
                             " x 4 codecs x 6 payload-length classes")
    chk.cov["distinct_nontrivial"] = dn
    chk.cov["rule"] = ("one evaluation = one build_hostname() + server-side extraction event, or one query name of the real "
                       "client on the wire, judged by TLC; non-trivial = distinct builder events with a payload of more than 2 bytes")
    chk.assumptions += ["TLC/JVM trusted"] + common.ASSUME_SIM[:2]
    return chk.finish()


def replay(path):
    print(json.dumps(json.load(open(path))["bundle"], indent=0)[:3000])
    return 0
