"""Shared scenario generators and the judge step for the sim-based checks."""
import random

import vcheck

A_ZLIB = ("A-zlib: a reassembly buffer that is not a complete compress2 image is rejected by uncompress "
          "(the real zlib runs in every simulated execution)")
ASSUME_SIM = ["A-sim: the wrapped libc boundary (select/time/sendto/recv*/tun read+write) behaves like Linux UDP/tun",
              "A-parse: the harness's independent DNS/codec/protocol parser used for abstraction is correct",
              "TLC, JVM, clang sanitizers trusted"]

QTYPES = ["NULL", "PRIVATE", "TXT", "SRV", "MX", "CNAME", "A"]
DOWNENCS = [None, "Base32", "Base64", "Base64u", "Base128", "Raw"]
PATHS = [{}, {"q8": "strip"}, {"q8": "strip", "qpunct": "plus"}, {"qcase": "random"},
         {"rewrite_id": True}, {"qcase": "lower", "rewrite_id": True}]
FRAGS = [None, 50, 200, 1200, 3]
MAXLENS = [None, 100, 160, 255]
LAZY = [1, 0]


def configs(n, seed):
    """n (Session kwargs, Relay kwargs) pairs spread over the configuration product (each value of each
    dimension occurs about equally often; pair coverage by coprime strides + seeded shuffle)."""
    rng = random.Random(seed)
    out = []
    for i in range(n):
        qt = QTYPES[i % 7]
        de = DOWNENCS[(i // 7 + i) % 6]
        if de == "Raw" and qt not in ("TXT", "NULL", "PRIVATE"):
            de = "Base128"
        path = PATHS[(i // 2 + i * 5) % 6]
        fr = FRAGS[(i * 3 + i // 5) % 5]
        ml = MAXLENS[(i * 7 + i // 3) % 4]
        lz = LAZY[(i + i // 4) % 2]
        sess = {"qtype": qt, "downenc": de, "lazy": lz, "maxlen": ml, "fragsize": fr}
        if i % 6 == 5:
            # other peers hold the low slots: the client's userid is 10..15 (a letter in every data query name)
            sess["occupy"] = 10 + (i // 6) % 6
        elif i % 6 == 2:
            sess["prior"] = True        # the client inherits a slot whose earlier tenant had negotiated other settings
        out.append((sess, dict(path)))
    rng.shuffle(out)
    return out


def schedules(tier):
    s = [{"name": "clean"},
         {"name": "rnd10", "relay": {"p_drop": 0.1, "p_dup": 0.1, "p_delay": 0.1}, "fault_ms": [0, 25000]},
         {"name": "rnd30", "relay": {"p_drop": 0.3, "p_dup": 0.3, "p_delay": 0.2, "max_delay": 2500000},
          "fault_ms": [0, 25000]},
         {"name": "dupid", "relay": {"p_dup": 0.3}, "fault_ms": [0, 25000],
          "plan": [["q", n, "dupid"] for n in range(2, 40, 3)]},
         {"name": "drop-a", "plan": [["a", n, "drop"] for n in (1, 2, 5, 6, 7, 11)] + [["q", 3, "dup"], ["q", 9, "delay"]]},
         {"name": "blackout", "blackout_ms": [["a", 2000, 9000], ["q", 15000, 18000]]},
         {"name": "id0", "plan": [["q", n, "id0"] for n in range(1, 90, 2)]}]
    if tier == "thorough":
        for k in range(0, 24, 2):
            s.append({"name": "plan%d" % k, "plan": [["q", k, "drop"], ["a", k + 1, "dup"], ["q", k + 3, "dupid"],
                                                      ["a", k + 4, "delay"]]})
        s.append({"name": "rnd50", "relay": {"p_drop": 0.5, "p_dup": 0.2, "p_delay": 0.2}, "fault_ms": [0, 20000]})
    return s


def packets(seed, tier, c2c=False):
    """[[t_ms, side, dst, kind, size], ...]"""
    rng = random.Random(seed)
    sizes = [1, 20, 200, 600, 1100, 1400]
    kinds = ["rand", "rand", "text", "zero", "ff"]
    n = 10 if tier == "quick" else 16
    out = []
    t = 50
    for i in range(n):
        if c2c:
            side, dst = rng.choice([("C0", "C1"), ("C1", "C0"), ("C0", "S"), ("S", "C1"), ("S", "C0")])
        else:
            side, dst = rng.choice([("C0", "S"), ("S", "C0")])
        out.append([t, side, dst, rng.choice(kinds), rng.choice(sizes)])
        t += rng.choice([0, 0, 5, 30, 400, 1500, 4000])
    # one packet beyond the 16-fragment limit in each direction (incompressible, large)
    out.append([t + 3000, "C0", "S", "rand", 1400])
    out.append([t + 3000, "S", "C0", "rand", 1400])
    return out


def model_step(chk, prop, tier):
    """Run the Layer-A model(s) registered for this property (spec/models.json)."""
    import json
    import os
    mp = os.path.join(vcheck.SPEC, "models.json")
    if not os.path.exists(mp):
        return
    models = json.load(open(mp)).get(prop, {}).get(tier, [])
    for m in models:
        res = vcheck.tlc(m["module"], m["cfg"], workers=m.get("workers", vcheck.NCPU),
                         timeout=m.get("timeout", 600), simulate=m.get("simulate"), depth=m.get("depth"),
                         coverage=m.get("coverage", False), heap=m.get("heap", "8g"))
        chk.add_model(m["cfg"], res)
        if m.get("expect") == "violation":
            # vacuity probe: the negation of "the interesting state is reachable" MUST be violated
            chk.cov.setdefault("vacuity_probes", {})[m["cfg"]] = "reached" if res.violation else "NOT REACHED"
            if not res.violation:
                chk.broken.append("vacuity probe %s was not violated: the model never reaches the states the property "
                                  "speaks about (%s)" % (m["cfg"], res.broken or "no error found"))
            continue
        if res.violation:
            # a design-level counterexample: reported, and decided on the real code by the G/T steps
            chk.notes.setdefault("spec_counterexamples", []).append(
                {"model": m["cfg"], "violation": res.violation, "trace": vcheck.counterexample(res, 3000)})
            if m.get("must_hold", True):
                chk.broken.append("spec-level violation in %s: %s (the Layer-A model or its invariant is wrong, "
                                  "or the design breaks the property)" % (m["cfg"], res.violation))


def judge(chk, results, module, cfg, sig_prefix, sigfn=None, shards=None, key="events", max_rejects=5):
    """TLC validates every run's event list against the monitor; rejected runs are re-executed once and
    re-validated (determinism guard) before they count as violations."""
    execs = [r[key] for r in results]
    out = vcheck.validate_executions(module, cfg, execs, shards=shards, max_rejects=max_rejects)
    chk.cov["traces_validated_against_impl"] = chk.cov.get("traces_validated_against_impl", 0) + out["validated"]
    chk.cov["trace_events"] = chk.cov.get("trace_events", 0) + out["events"]
    if out["broken"]:
        chk.broken.append(out["broken"])
    for rej in out["rejected"]:
        r = results[rej["index"]]
        sig = sig_prefix + ":" + (sigfn(r, rej) if sigfn else str(rej["event"].get("e")))
        what = "monitor %s rejects run %s at event #%d %s (after %s)" % (
            module, r.get("label"), rej["at"], rej["event"], rej["prefix_tail"])
        chk.violation(sig, what, {"spec": r.get("spec"), "rejected": rej})
    return out


# ------------------------------------------------------------------ Layer A binding of the data plane
def bind_tunnel(chk, results):
    """Every iteration of the real server's event loop and of the real client's tunnel loop in the recorded
    single-client DNS-mode runs must be a step of Tunnel.tla's server / client functions (TraceTunnelSrv.tla,
    TraceTunnelCli.tla).  Drift only - never a VIOLATION."""
    d1 = _bind_half(chk, results, "TSRV", "TraceTunnelSrv", "srv",
                    lambda t: (min(t["fragsize"], 4094), t["lazy"]),
                    lambda g: {"TT_FRAG": str(g[0]), "TT_LAZY": str(g[1])},
                    hs_up="pkt", hs_dn="p", out_side="dn", tunw_side="up")
    d2 = _bind_half(chk, results, "TCLI", "TraceTunnelCli", "cli",
                    lambda t: (t["capup"], t["lazy"]),
                    lambda g: {"TT_CAPUP": str(g[0]), "TT_LAZY": str(g[1])},
                    hs_up="p", hs_dn="pk", out_side="up", tunw_side="dn")
    d3 = _bind_half(chk, results, "TRAW", "TraceRawTunnel", "raw", lambda t: (0,), lambda g: {},
                    hs_up="p_up", hs_dn="p_dn", out_side="up", tunw_side="up", raw=True)
    return d1 + d2 + d3


BIND_CAP = 600


def _bind_half(chk, results, key, module, tag, groupfn, envfn, hs_up, hs_dn, out_side, tunw_side, raw=False):
    import json
    import os
    groups = {}
    skipped = 0
    have = False
    nbound = 0
    for i, r in enumerate(results):
        if key in r:
            have = True
        t = r.get(key)
        if not t or r.get("spec", {}).get("sess", {}).get("hs_tun") or r.get("spec", {}).get("redeliver_hs") or \
                r.get("spec", {}).get("nobind"):
            # (sessions that were handed tun traffic during the handshake do not start in Tunnel.tla's initial state;
            #  Tunnel.tla has no handshake requests in the middle of a transfer, and no record types of different capacity
            #  within one session: a fragment sent in answer to a foreign-type copy may be cut short by that type)
            skipped += 1
            continue
        if nbound >= BIND_CAP and i % 15:
            # the binding is drift-only: beyond BIND_CAP executions per check every 15th one is still bound
            skipped += 1
            continue
        nbound += 1
        groups.setdefault(groupfn(t), []).append(i)
    if not have:
        return []
    drift = []
    bound = events = 0
    for g, idx in sorted(groups.items()):
        up, dn, exs = [], [], []
        for i in idx:
            t = results[i][key]
            base = {"up": len(up), "dn": len(dn)}
            ex = []
            for e in t["events"]:
                e = json.loads(json.dumps(e))
                if raw:
                    # raw mode: one trace holds both programs; the server reads upstream packets and emits downstream
                    # ones, the client the other way round
                    srv = e["e"] == "Srv"
                    for h in e.get("hs", []):
                        if h["p"]:
                            h["p"] += base["dn" if (h["k"] == "Tun") == srv else "up"]
                    for a in e.get("out", []):
                        if a["p"]:
                            a["p"] += base["dn" if srv else "up"]
                    e["tunw"] = [x + base["up" if srv else "dn"] if x else 0 for x in e.get("tunw", [])]
                    ex.append(e)
                    continue
                for h in e.get("hs", []):
                    if h.get(hs_up):
                        h[hs_up] += base["up"]
                    if h.get(hs_dn):
                        h[hs_dn] += base["dn"]
                for a in e.get("out", []):
                    if a["pk"]:
                        a["pk"] += base[out_side]
                if "tunw" in e:
                    e["tunw"] = [x + base[tunw_side] if x else 0 for x in e["tunw"]]
                ex.append(e)
            exs.append(ex)
            up += t["up"]
            dn += t["dn"]
        lp = os.path.join(vcheck.scratch(), "tt-lens-%s-%d-%s.json" % (tag, os.getpid(), "-".join(str(x) for x in g)))
        with open(lp, "w") as f:
            f.write(json.dumps({"up": up, "dn": dn}) + "\n")
        out = vcheck.validate_executions(module, module + ".cfg", exs, max_rejects=3,
                                         env_extra=dict(envfn(g), TT_LENS=lp))
        os.unlink(lp)
        bound += out["validated"]
        events += out["events"]
        if out["broken"]:
            chk.notes.setdefault("binding_broken", []).append(out["broken"][:500])
        for rej in out["rejected"]:
            r = results[idx[rej["index"]]]
            drift.append({"half": tag, "run": r["label"], "at": rej["at"], "event": json.dumps(rej["event"])[:700]})
    chk.cov["layerA_tunnel_%s_bound_runs" % tag] = chk.cov.get("layerA_tunnel_%s_bound_runs" % tag, 0) + bound
    chk.cov["layerA_tunnel_%s_bound_iterations" % tag] = chk.cov.get("layerA_tunnel_%s_bound_iterations" % tag, 0) + events
    chk.cov["layerA_tunnel_%s_not_bound" % tag] = chk.cov.get("layerA_tunnel_%s_not_bound" % tag, 0) + skipped
    chk.cov["drift"] = chk.cov.get("drift", []) + drift[:10]
    chk.cov["drift_count"] = chk.cov.get("drift_count", 0) + len(drift)
    if drift:
        print("DRIFT property=%s layer-A Tunnel.tla (%s half): %d run(s) are not behaviours of the specification, first: %s"
              % (chk.pid, tag, len(drift), drift[0]))
    return drift


# ------------------------------------------------------------------ generic sim family runner
import runs


def _run_one(arg):
    spec, want = arg
    r = runs.execute(spec, want=want)
    out = {"label": spec.get("label"), "spec": spec, "stats": r["stats"], "san": r["san"],
           "hang": r["hang"], "error": r["error"], "fabricated": r.get("fabricated")}
    for m in want:
        out[m] = r["mon"].get(m, [])
    return out


def run_specs(specs, want):
    return vcheck.parallel(_run_one, [(s, tuple(want)) for s in specs])


def transfer_specs(tier, seed, n_quick=48, n_thorough=400, dur_ms=45000, extra=True):
    n_cfg = n_quick if tier == "quick" else n_thorough
    cfgs = configs(n_cfg, seed)
    out = []
    scheds = schedules(tier)
    for i, (sess, relay) in enumerate(cfgs):
        for j, sch in enumerate(scheds):
            if tier == "quick" and (i + j) % 2 and j > 1:
                continue
            s = {"seed": seed * 100000 + i * 100 + j, "sess": sess, "relay": dict(relay, **sch.get("relay", {})),
                 "pkts": packets(seed + i * 31 + j, tier), "dur_ms": dur_ms}
            for k in ("fault_ms", "plan", "blackout_ms"):
                if k in sch:
                    s[k] = sch[k]
            s["label"] = "cfg%d/%s" % (i, sch["name"])
            out.append(s)
    if extra:
        n = 6 if tier == "quick" else 60
        for i in range(n):
            out.append({"seed": seed * 100000 + 90000 + i, "sess": {"qtype": "NULL", "raw": True},
                        "relay": {"p_drop": 0.1 * (i % 3), "p_dup": 0.1 * (i % 2)}, "fault_ms": [0, 20000],
                        "pkts": packets(seed + 7000 + i, tier), "dur_ms": 40000, "label": "raw%d" % i})
            out.append({"seed": seed * 100000 + 91000 + i,
                        "sess": {"qtype": ["NULL", "TXT", "CNAME"][i % 3], "nclients": 2, "lazy": i % 2,
                                 "fragsize": [None, 100, 300][i % 3]},
                        "relay": {"p_drop": 0.08 * (i % 3), "p_dup": 0.1 * (i % 2), "p_delay": 0.1},
                        "fault_ms": [0, 20000], "pkts": packets(seed + 8000 + i, tier, c2c=True),
                        "dur_ms": 50000, "label": "c2c%d" % i})
    return out


def dupspell_specs(tier, seed):
    """Sessions in which a relay re-sends held queries several times with DIFFERENT spellings in turn: a case-changed
    copy, then a copy spelled exactly like the original, then another case-changed one (new ids) - every answer must
    still echo the name of the very query it answers (C10, C14)."""
    out = []
    for i in range(8 if tier == "quick" else 60):
        red = {}
        for n in range(3, 160, 1 + i % 2):
            order = [[1, 0, 2], [2, 0, 1], [0, 1, 0], [1, 2, 0]][(n + i) % 4]
            red[n] = [[0, 1 + j, fl, (n // 5) % 2, 30 + 45 * j] for j, fl in enumerate(order)]     # every copy with an id of its own
        out.append({"seed": seed * 100000 + 2500 + i,
                    "sess": {"qtype": QTYPES[i % 7], "lazy": 1, "fragsize": [None, 200, 100][i % 3]},
                    "relay": {}, "redeliver": red, "pkts": packets(seed + 250 + i, tier), "dur_ms": 30000,
                    "label": "dupspell%d" % i})
    return fit_frag(out)


def retype_specs(tier, seed):
    """Sessions in which a relay (or a curious third party behind the same resolver) repeats held and recent queries with
    the SAME name but ANOTHER record type (ids of their own): such a query is a different question - it must get its own
    answer, of its own type, or none (C10, C14)."""
    import dnsmsg as D
    types = [D.T_NULL, D.T_TXT, D.T_CNAME, D.T_MX, D.T_SRV, D.T_A, D.T_PRIVATE]
    out = []
    for i in range(8 if tier == "quick" else 60):
        red = {}
        for n in range(3, 140, 1 + i % 3):
            red[n] = [[[0, 0, 1, 3][(n + j) % 4], 1 + j, [0, 2][(n + j) % 2], (n // 5) % 2, 20 + 60 * j,
                       types[(n + i + j) % 7]] for j in range(1 + n % 2)]
        out.append({"seed": seed * 100000 + 2600 + i,
                    "sess": {"qtype": QTYPES[i % 7], "lazy": [1, 1, 0][i % 3], "fragsize": [None, 200, 100][i % 3]},
                    "relay": {}, "redeliver": red, "pkts": packets(seed + 260 + i, tier), "dur_ms": 30000,
                    "nobind": True, "label": "retype%d" % i})
    return fit_frag(out)


def fit_frag(specs):
    """C15/C02/C09 speak about a NEGOTIATED fragment size: a size forced with -m above what the record
    type can carry (CNAME/A answers hold one ~250-char name) is outside that; use autoprobe there."""
    for s in specs:
        ss = s["sess"]
        if ss.get("qtype") in ("CNAME", "A") and (ss.get("fragsize") or 0) > 100:
            ss["fragsize"] = None
        # -T PRIVATE never passes the client's EDNS0 test (it asks for codec T, which the server refuses for
        # PRIVATE), so its queries carry no OPT record and a relay limits such answers to 512 bytes
        if ss.get("qtype") == "PRIVATE" and (ss.get("fragsize") or 0) > 400 and s.get("relay"):
            ss["fragsize"] = None
    return specs


def fault_count(r):
    return sum(v for k, v in r["stats"].get("fates", {}).items() if k != "ok")
