"""C10  Every DNS message emitted is well-formed and answers echo their question.

M/T: spec/DnsWire.tla: WellFormed(bytes) (counts = records present, labels 1..63, names <= 255, pointers strictly backwards
     to a label boundary of an earlier name, RDLENGTH = actual data size for CNAME/NS/MX/SRV/A, TXT tiled by its strings,
     nothing after the last record), Echoes(answer, query), NSOK / AOK for the auxiliary answers; sanity ASSUMEs.
G: (i) datagrams of simulated sessions of the real client and server (all record types / codecs / fragment sizes / -M,
   stratified by size class); (ii) the real write_dns() output for every type x codec over the payload-size sweep of
   drv_down; (iii) a scripted family asking the real server NS / A (ns., www.) / other types, names at the size limits,
   mixed case, with and without EDNS0.
T: TLC evaluates every datagram (as an integer sequence) against DnsWire.tla.
"""
import json
import os
import random

import dnsmsg as D
import vcheck
import world as W
from checks import common, funcs

DOM = "t.example.com"


def aux_events(seed):
    import runs
    rng = random.Random(seed)
    evs = []
    w = None
    try:
        w = W.World(runs.bdir(), seed=seed, tag="ax%d" % seed)
        v6 = (seed // 2) % 2 == 1          # every other pair of runs asks over the IPv6 listening socket
        args = ["-f", "-P", "pw"] + ([] if v6 else ["-4"]) + (["-n", "192.0.2.%d" % (seed % 200 + 1)] if seed % 2 else []) + \
            ["10.0.0.1/24", "*.example.com" if seed % 3 == 2 else DOM]      # every third server serves a wildcard domain
        w.spawn("S", "S", args)
        w.run_until(t=w.now + 1000)
        got = []
        src = ("fd00::9", 5301) if v6 else ("10.9.2.1", 5301)
        dstaddr = (W.SERVER_IP6, 53) if v6 else (W.SERVER_IP, 53)
        w.endpoints[src] = lambda wd, serial, s, d, data: got.append(data)
        dl = [[b"t", b"my-tun", b"x1", b"a-b-c"][(seed // 3) % 4] if seed % 3 == 2 else b"t", b"example", b"com"]

        def case(l):
            return bytes((c ^ 0x20) if 97 <= (c | 0x20) <= 122 and rng.random() < 0.4 else c for c in l)
        for i in range(120):
            k = i % 8
            dom = [case(l) for l in dl]
            if k == 0:
                labels, qt, kind = dom, D.T_NS, "AuxNS"
            elif k == 1:
                labels, qt, kind = [rng.choice([b"foo", b"a" * 63, b"x"])] + dom, D.T_NS, "AuxNS"
            elif k == 2:
                labels, qt, kind = [case(b"ns")] + dom, D.T_A, "AuxA"
            elif k == 3:
                labels, qt, kind = [case(b"www")] + dom, D.T_A, "AuxA"
            elif k == 4:    # longest possible name under the domain, NS
                labels, qt, kind = [b"k" * 63, b"l" * 63, b"m" * 63, b"n" * (253 - 3 * 64 - 1 - 14)] + dom, D.T_NS, "AuxNS"
            elif k == 5:    # version request with a wrong version: answered VNAK in every type
                labels = [b"vaaaaaaa"] + dom
                qt, kind = rng.choice([D.T_NULL, D.T_TXT, D.T_CNAME, D.T_MX, D.T_SRV, D.T_A, D.T_PRIVATE]), "Ans"
            elif k == 6:    # upstream codec echo test, long
                labels = [b"z" + bytes(rng.choice(b"abcdefghijklmnopqrstuvwxyzABCDEFXYZ0123456789-") for _ in range(rng.randrange(1, 62)))
                          for _ in range(rng.randrange(1, 4))] + dom
                qt, kind = rng.choice([D.T_NULL, D.T_TXT, D.T_CNAME, D.T_MX, D.T_SRV, D.T_A]), "Ans"
            else:           # downstream codec check in every codec
                labels = [b"y" + rng.choice([b"t", b"s", b"u", b"v", b"r"]) + b"baaaa"] + dom
                qt, kind = rng.choice([D.T_NULL, D.T_TXT, D.T_CNAME, D.T_MX, D.T_SRV, D.T_A]), "Ans"
            q = D.build_query(rng.randrange(1, 65536), labels, qt, edns=bool(i % 3))
            del got[:]
            w.send(src, dstaddr, q, "asker")
            w.run_until(t=w.now + 3000)
            for a in got:
                ev = {"e": kind, "q": list(q), "a": list(a)}
                if kind == "AuxNS":
                    ev["ndom"] = 3
                evs.append(ev)
            # always answered (no action of the specification matches an unanswered one): NS queries for short names
            # under the domain, A queries for www., and A queries for ns. when the server knows an IPv4 address to give
            # (query arrived over IPv4, or -n was given)
            must = (kind == "AuxNS" and k in (0, 1)) or (kind == "AuxA" and (k == 3 or not v6 or seed % 2 == 1))
            if not got and must:
                evs.append({"e": kind + "Unanswered", "q": list(q)})
    except (W.KernelDied, W.KernelHang):
        pass
    finally:
        if w is not None:
            w.close()
    return evs


def main(tier):
    chk = vcheck.Check("C10", "exploration", tier)
    seed = vcheck.seed() + 10
    q = tier == "quick"
    res = vcheck.tlc("DnsWire", "DnsWire_mc.cfg", workers=1, timeout=300, heap="2g")
    chk.add_model("DnsWire.tla sanity ASSUMEs (hand-made query/answer, trailing byte, truncation, pointer loop)", res)
    if not res.ok:
        chk.broken.append("DnsWire ASSUMEs failed: %s" % (res.violation or res.out[-400:]))
    ns = 32
    prod = funcs.produce("drv_down", [[seed, sh, ns, 64 if q else 8, "wire"] for sh in range(ns)])
    funcs.san_failures(chk, prod, "wire")
    files = [p for p, n, rc, err in prod if n > 0]
    sp = common.fit_frag(common.transfer_specs(tier, seed, n_quick=42, n_thorough=300, dur_ms=15000, extra=False))
    sp = [s for i, s in enumerate(sp) if s["label"].endswith("/clean") or i % 4 == 0]
    sp += common.dupspell_specs(tier, seed) + common.retype_specs(tier, seed)
    results = common.run_specs(sp, ["C10"])
    aux = vcheck.parallel(aux_events, [seed * 10 + i for i in range(8 if q else 64)])
    nsim = 0
    paths = []
    chunks = [results[i::16] for i in range(16)]
    for ci, ch in enumerate(chunks):
        pth = os.path.join(vcheck.scratch(), "c10sim-%d-%d.ndjson" % (os.getpid(), ci))
        with open(pth, "w") as f:
            for r in ch:
                for e in r["C10"]:
                    f.write(json.dumps(e) + "\n")
                    nsim += 1
            if ci < len(aux) or ci == 0:
                for evs in aux[ci::16]:
                    for e in evs:
                        f.write(json.dumps(e) + "\n")
        paths.append(pth)
    files += paths
    _, dn = funcs.survey(chk, files, lambda ev: len(ev.get("a", ev.get("b", []))) > 60, maxlen=300)
    out = funcs.judge_files(chk, "TraceDnsWire", "TraceDnsWire.cfg", files, "wire",
                            sigfn=lambda ev: "%s:%s:%s" % (ev.get("e"), ev.get("qt", ""), ev.get("codec", ev.get("who", ""))))
    chk.cov["evaluations"] = out["events"]
    chk.cov["sim_datagrams"] = nsim
    chk.cov["aux_events"] = sum(len(e) for e in aux)
    chk.cov["aux_kinds"] = sorted({e["e"] for evs in aux for e in evs})
    chk.cov["aux_runs_answered"] = sum(1 for evs in aux if evs)
    chk.cov["writer_datagrams"] = sum(n for p, n, rc, e in prod)
    chk.cov["distinct_nontrivial"] = dn
    chk.cov["rule"] = ("one evaluation = one emitted datagram (or answer/query pair) parsed by TLC with DnsWire.tla; non-trivial = "
                       "distinct datagrams longer than 60 bytes")
    chk.assumptions += ["TLC/JVM trusted"] + common.ASSUME_SIM[:1]
    return chk.finish()


def replay(path):
    print(json.dumps(json.load(open(path))["bundle"], indent=0)[:3000])
    return 0
