"""C05  Server survives arbitrary datagrams (memory safety, termination, keeps serving).

M: TLC model-checks spec/Session.tla with the Opaque action enabled in every state (C03/C04 properties hold with
   arbitrary non-request datagrams interleaved).
G: TLC-generated session histories bring real sessions into handshake / transfer / lazy / raw states; in between,
   bursts of generated hostile datagrams (arbitrary bytes, malformed DNS, every command letter with hostile
   arguments, raw frames, mutations of recorded valid traffic, hostile tun packets) from a foreign address.
T: memory safety / UB: ASan+UBSan compiled into the harness; bounded time: step watchdog; functional half:
   spec/MonServing.tla (other sessions' users[] records unchanged, nothing sent to third parties, health probe).
"""
import json

import script
import vcheck
from checks import common, sessions


def specs(tier, seed, chk):
    sp = sessions.specs(tier, seed, chk)
    for i, s in enumerate(sp):
        s["hostile"] = {"every": 3, "burst": 10 if tier == "quick" else 30, "tun": True}
        s["label"] = "h" + s["label"]
        if i % 4 == 0:
            # a hostile tunnel USER: well-formed raw DATA frames of every length around the forwarding buffers
            k = i // 4
            around = [4096 + d for d in range(-12, 9)] + [2048 + d for d in range(-5, 4)]
            big = [8192, 16384, 32767, 32768, 40000, 65000, 65400, 65490, 65499, 65500, 65503, -70000, -66000, -65536, -65500]
            s["hostile"]["fwd"] = around[k % 3::3] + [big[k % len(big)], big[(k + 5) % len(big)], 12 + k % 40, 1, 11]
        if i % 4 == 2:
            # a hostile tunnel user in DNS mode: arbitrary bytes in the data part under every upstream codec
            s["hostile"]["codecbytes"] = 6 if tier == "quick" else 12
    return sp


def main(tier):
    chk = vcheck.Check("C05", "exploration", tier)
    seed = vcheck.seed() + 5
    common.model_step(chk, "C05", tier)
    results = sessions.run(specs(tier, seed, chk))
    common.judge(chk, results, "TraceMonServing", "TraceMonServing.cfg", "serving",
                 sigfn=lambda r, rej: "%s:%s" % (rej["event"].get("e"), rej["event"].get("kind", "")), key="c05")
    sessions.health(chk, results, "serving")
    sessions.bind(chk, results)
    kinds = {}
    for r in results:
        for k, v in r["stats"].get("hostile_kinds", {}).items():
            kinds[k] = kinds.get(k, 0) + v
    chk.cov["evaluations"] = sum(r["stats"].get("hostile", 0) for r in results)
    chk.cov["hostile_by_kind"] = kinds
    chk.cov["health_probes"] = sum(r["stats"].get("probes", 0) for r in results)
    chk.cov["histories"] = len(results)
    chk.cov["distinct_nontrivial"] = sum(1 for r in results for e in r["c05"]
                                         if e["e"] == "Hostile" and (e["replies"] or e["kind"] in ("malformed", "mutated")))
    chk.cov["rule"] = ("one evaluation = one hostile datagram / tun packet processed by the sanitizer-instrumented real "
                       "iodined in a session state reached by a TLC-generated history; non-trivial = hostile inputs that "
                       "are structurally malformed DNS, mutations of valid traffic, or elicited a reply")
    chk.cov["oracles"] = {"memory_safety_and_UB": "clang ASan+UBSan in the harness binary (observed, not specified)",
                          "bounded_time": "per-step watchdog of the simulation kernel",
                          "keeps_serving": "TLC trace validation against MonServing + Layer A binding"}
    for r in results[:1]:
        chk.sample({"label": r["label"], "events": r["c05"][:6]})
    chk.assumptions += common.ASSUME_SIM
    return chk.finish()


def replay(path):
    b = json.load(open(path))
    r = script.execute(b["bundle"]["spec"])
    print(json.dumps({"c05": [e for e in r["c05"] if e["e"] != "Hostile" or e["changed"] or e["stray"]],
                      "stats": r["stats"], "san": r["san"]}, indent=0)[:8000])
    return 0
