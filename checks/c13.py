"""C13  Peer-supplied text never reaches a shell; only validated numbers do.

M: spec/Shell.tla: grammar of the permitted command lines (strict dotted quads, decimal integers in range, locally
   chosen interface name); TLC checks over all field strings of length <= 4 over a 9-character attack alphabet that
   exactly the strictly validated fields yield a valid command and that validated fields are inert.
G: the real client logs in to the real server through a man in the middle that replaces the login answer with generated
   payloads (attack strings in the server-address, client-address, mtu and netmask fields) under every query type and
   downstream encoding, on simulated hosts with net-tools, with iproute2 only, with both and with neither (access() is
   answered by the harness); system() is wrapped by the harness.
T: every command line the client passes to system() is parsed character by character by TLC (TraceShell).
"""
import itertools
import json
import random

import mitm
import vcheck
from checks import common

ALPHA = ["1", "0", ".", " ", "\t", "\n", ";", "|", "$", "(", "`", "'", "a", ":", "f"]
CURATED = ["10.0.0.2 ;id", "10.0.0.2;id", "10.0.0.2 `id`", "10.0.0.2 $(id)", "10.0.0.2\nid", "10.0.0.2 | id", "1.2.3.4 && reboot",
           "10.0.0.2\tx", "010.0.0.2", "10.0.0.256", "10.0.0", "1.2.3.4.5", "0x0a.0.0.2", "10.0.0.2 ", " 10.0.0.2",
           "10.0.0.2'", "\"10.0.0.2\"", "10.0.0.2 netmask 0.0.0.0 up; id #", "2130706433", "10.0.0.2 -alias", "a", "",
           "10.0.0.2 " + "A" * 50, "1.1.1.1 >/tmp/x",
           # other address syntaxes a lenient parser accepts (IPv6 literals, IPv4-mapped, scoped, bracketed, CIDR, hex / octal)
           "fd00:dead:beef::2", "::ffff:10.0.0.2", "::1", "::", "fe80::1%dns0", "[::1]", "2001:db8::1", "::10.0.0.2", "1::",
           "10.0.0.2/24", "10.0.0.2%1", "0xa000002", "012.0.0.2", "10.2", "10.0.2", "1.2.3.4:53", "١٠.٠.٠.٢".encode("utf-8").decode("latin-1")]
NUMS = ["1130", "27", "0", "-1", "33", "99999999999", "1130;id", "27 ;id", "1e3", "0x10", " 27", "27 ", "4294967295",
        "2147483648", "+27", "27\n", "$(id)", "`id`",
        # values that are in range only after a narrowing conversion (16 / 8 / 32 bits) or a sign change
        "66736", "132272", "-64336", "67036", "65737", "4294968426", "-4294966166", "283", "1386", "65563", "4294967323",
        "-4294967269", "-229", "01130", "1130.0", "1130e0", "0027",
        # boundaries of the accepted ranges themselves (mtu 201..1500, netmask 1..32)
        "200", "201", "1500", "1501", "00", "-0", "+0", "1", "32", "000", "0x0", "31", "2", "8"]


def payloads(tier, seed):
    rng = random.Random(seed)
    short = [""]
    for n in (1, 2, 3):
        short += ["".join(t) for t in itertools.product(ALPHA, repeat=n)]
    if tier == "quick":
        short = rng.sample(short, 500)
    out = []
    ok = ["10.0.0.1", "10.0.0.2", "1130", "27"]
    for f in range(4):
        pool = (CURATED if f < 2 else NUMS) + short
        if f < 2:
            # a valid dotted quad of every length 7..15 followed by attack text (a validator that looks only at a
            # bounded prefix is exposed by the longest ones)
            quads = ["1.2.3.4", "10.0.0.2", "10.10.0.2", "10.10.10.2", "10.10.10.20", "10.10.10.200", "10.10.100.200",
                     "10.100.100.200", "192.168.100.200", "100.100.100.100"]
            tails = short if tier != "quick" else short[:120]
            pool = pool + [q + s for q in quads for s in tails if s] + \
                [q + t for q in quads for t in (";id", " ;id", "`id`", "$(id)", "|id", "\nid", " x", "x", ".1", "0")]
        for s in pool:
            if "-" in s:
                continue
            fields = list(ok)
            fields[f] = s
            out.append("-".join(fields))
    for i in range(60 if tier == "quick" else 1500):      # longer seeded ones, several hostile fields at once
        fs = []
        for f in range(4):
            if rng.random() < 0.5:
                fs.append(ok[f])
            else:
                base = rng.choice(["10.0.0.2", "1.2.3.4", "27", ""])
                fs.append((base + "".join(rng.choice(ALPHA + list("bcxyz/>&")) for _ in range(rng.randrange(0, 64))))[:rng.choice([64, 70, 20])].replace("-", "_"))
        out.append("-".join(fs))
    return out


def specs(tier, seed):
    out = []
    for i, pl in enumerate(payloads(tier, seed)):
        qt = common.QTYPES[i % 7]
        de = "TSUVR"[(i // 7) % 5]
        if de == "R" and qt not in ("TXT", "NULL", "PRIVATE"):
            de = "T"
        out.append({"seed": seed * 100000 + i, "sess": {"qtype": qt}, "pkts": [], "dur_ms": 100, "hs_limit_ms": 60000,
                    "plan": [{"kind": "login", "k": 0, "n": 1, "mode": "replace", "what": "payload",
                              "payload": pl.encode("latin-1").hex(), "downenc": de}],
                    "host": [0, 1, 3, 2][i % 4] if i % 3 else 0, "label": "login%d" % i, "payload": pl})
    # reply HISTORIES within one login handshake: a first reply that does not configure anything (garbage, too few
    # fields, numbers out of range with and without well-formed addresses, ...) makes the client ask again; the reply to
    # that retry carries the attack text.  A verdict that survives from one reply to the next is exposed here.
    rng = random.Random(seed + 1)
    firsts = ["garbage", "", "10.0.0.1-10.0.0.2-1130", "10.0.0.1-10.0.0.2-9000-27", "10.0.0.1-10.0.0.2-1130-99",
              "10.0.0.1-10.0.0.2-0-27", "10.0.0.1-10.0.0.2-1130-0", "10.0.0.1-10.0.0.2-100-27", "10.0.0.1-10.0.0.2-1501-33",
              "x-y-1130-27", "10.0.0.1-10.0.0.2-abc-27", "1.2.3.4-5.6.7.8--1-27", "BADIP", "10.0.0.1-10.0.0.2-1130-27-9"]
    seconds = ["10.0.0.1-10.0.0.2 ;id-1130-27", "10.0.0.1 ;id-10.0.0.2-1130-27", "10.0.0.1-10.0.0.2\tx-1200-27",
               "10.0.0.1-10.0.0.2 `id`-1130-27", "10.0.0.1-10.0.0.2 $(id)-1130-27", "10.0.0.1-10.0.0.2\nid-1130-27",
               "10.0.0.1-10.0.0.2;id-1130-27", "10.0.0.1-10.0.0.2 | id-1130-27", "10.0.0.1-10.0.0.2-1130;id-27",
               "10.0.0.1-10.0.0.2-1130-27 ;id"]
    base = len(out)
    pairs = [(a, b) for a in firsts for b in seconds]
    if tier == "quick":
        pairs = [p for i, p in enumerate(pairs) if i % 2 == 0]
    for i, (a, b) in enumerate(pairs):
        qt = common.QTYPES[i % 7]
        de = "TSUV"[(i // 7) % 4]
        plan = [{"kind": "login", "k": 0, "n": 1, "mode": "replace", "what": "payload",
                 "payload": a.encode("latin-1").hex(), "downenc": de},
                {"kind": "login", "k": 1, "n": 1, "mode": "replace", "what": "payload",
                 "payload": b.encode("latin-1").hex(), "downenc": de}]
        if i % 5 == 4:      # ... or only as the third reply
            plan.append(dict(plan[1], k=2))
            plan[1] = dict(plan[0], k=1, payload=rng.choice(firsts).encode("latin-1").hex())
        out.append({"seed": seed * 100000 + base + i, "sess": {"qtype": qt}, "pkts": [], "dur_ms": 100, "hs_limit_ms": 60000,
                    "host": [0, 1, 3, 2][i % 4], "plan": plan, "label": "loginseq%d" % i, "payload": a + " || " + b})
    return out


def _run(spec):
    r = mitm.execute(spec)
    evs = [{"e": "System", "cmd": [ord(c) for c in cmd], "text": cmd} for inst, cmd in r["systems"] if inst == "C0"]
    if not evs:
        evs = [{"e": "NoCmd"}]
    return {"label": spec["label"], "spec": spec, "c13": evs, "san": r["san"], "hang": r["hang"], "error": r["error"],
            "stats": {"cmds": sum(1 for e in evs if e["e"] == "System"), "injected": r["stats"].get("injected", 0)}}


def main(tier):
    chk = vcheck.Check("C13", "exploration", tier)
    seed = vcheck.seed() + 13
    res = vcheck.tlc("Shell", "Shell_mc.cfg", workers=8, timeout=900, heap="4g")
    chk.add_model("Shell_mc.cfg (ASSUME ValidatedIsInert, OnlyValidated over all field strings <= 4 chars)", res)
    if not res.ok:
        chk.broken.append("Shell.tla assumptions failed: " + (res.violation or res.out[-600:]))
    results = vcheck.parallel(_run, specs(tier, seed))
    common.judge(chk, results, "TraceShell", "TraceShell.cfg", "shell",
                 sigfn=lambda r, rej: "cmd:" + "".join(c if c.isalnum() else "_" for c in rej["event"].get("text", "")[27:60]),
                 key="c13")
    chk.cov["evaluations"] = len(results)
    chk.cov["login_replies_delivered"] = sum(1 for r in results if r["stats"]["injected"])
    chk.cov["commands_judged"] = sum(r["stats"]["cmds"] for r in results)
    chk.cov["runs_without_command"] = sum(1 for r in results if r["stats"]["cmds"] == 0)
    chk.cov["distinct_nontrivial"] = len({r["spec"]["payload"] for r in results if r["stats"]["injected"]})
    chk.cov["rule"] = ("one evaluation = one generated login reply served to the real client at the login step; every "
                       "system() command line of the client is judged; non-trivial = distinct payloads actually delivered")
    chk.cov["sanitizer_reports_seen"] = sum(1 for r in results if r["san"])
    for r in results[:2]:
        chk.sample({"payload": r["spec"]["payload"], "events": [e.get("text", e["e"]) for e in r["c13"]]})
    chk.assumptions += common.ASSUME_SIM + ["LINUX build of tun.c (ifconfig command lines); FreeBSD/Windows branches not covered"]
    return chk.finish()


def replay(path):
    b = json.load(open(path))
    r = _run(b["bundle"]["spec"])
    print(json.dumps([e.get("text", e["e"]) for e in r["c13"]], indent=0))
    return 0
