"""C15  Downstream fragments never exceed the negotiated fragment size; numbering and last flag."""
import json

import vcheck
from checks import common


def main(tier):
    chk = vcheck.Check("C15", "model_checking", tier)
    seed = vcheck.seed()
    common.model_step(chk, "C15", tier)
    sp = common.fit_frag(common.transfer_specs(tier, seed + 15))
    # a slot with history: the earlier tenant had negotiated a large fragment size; packets for the new client reach the
    # server while it is still in its handshake, i.e. before it has set any size - at most the conservative default
    for i in range(8 if tier == "quick" else 48):
        sp.append({"seed": (seed + 15) * 100000 + 80000 + i,
                   "sess": {"qtype": common.QTYPES[i % 7], "lazy": i % 2, "prior": True, "hs_tun": 1 + i % 3,
                            "fragsize": [None, 300, 600][i % 3]},
                   "relay": {}, "pkts": [[300, "S", "C0", "rand", 700], [900, "C0", "S", "rand", 300]], "dur_ms": 8000,
                   "label": "priorhs%d" % i})
    sp = common.fit_frag(sp)
    results = common.run_specs(sp, ["C15"])
    # scripted client that changes the fragment size while a packet is in flight (the stock client sets it once)
    import random
    import script
    rng = random.Random(seed)
    fsp = []
    for i in range(60 if tier == "quick" else 1500):
        n = rng.choice([2, 2, 3])
        fsp.append({"seed": seed * 100000 + 15000 + i, "qtype": common.QTYPES[i % 7] if i % 3 else "NULL",
                    "sizes": [rng.choice([1000, 600, 1200, 300, 100, 50, 17, 3, 2, 1, 2047, 4094, 4095, 4500, 6000, 65535]) for _ in range(n)],
                    "pkt": rng.choice([300, 1200, 1400, 3000, 5000, 10000]), "ackp": rng.choice([0.0, 0.3, 0.6, 0.9]),
                    "lazy": bool(i % 2), "downenc": rng.choice([None, None, "S", "V"]) if common.QTYPES[i % 7] not in ("NULL", "PRIVATE") and i % 3 else None,
                    "change_at": sorted(rng.sample(range(1, 12), n - 1)), "offer_at": [rng.randrange(5, 30)],
                    "pings": 40, "check_ip": i % 5 != 0, "label": "fragscript%d" % i})
    for i, f in enumerate(fsp):
        if i % 5 == 3:
            f["prior_n"] = [1000, 4000, 300, 65535][(i // 5) % 4]
            f["late_n"] = True
            f["change_at"] = sorted(set(f["change_at"]) | {6})
        elif i % 5 == 4:
            f["late_n"] = True
        if i % 2:
            pool = [{"c": "L", "src": 1, "uid": 0, "claim": 1}, {"c": "I", "src": 1, "uid": 0},
                    {"c": "S", "src": 1, "uid": 0, "arg": "b32"}, {"c": "L", "src": 1, "uid": 0, "claim": 1},
                    {"c": "L", "src": 1, "uid": 0, "claim": 0}, {"c": "P", "src": 1, "uid": 0}]
            f["extras"] = [[rng.randrange(0, 14), pool[(i // 2 + j) % len(pool)]] for j in range(1 + i % 3)]
    for f in fsp:
        # C15 speaks about a NEGOTIATED size: CNAME/A answers hold one ~250-character name, a size above what that
        # carries is never negotiated (the probe fails) - same rule as common.fit_frag
        if f["qtype"] in ("CNAME", "A"):
            f["sizes"] = [x if x <= 100 else rng.choice([100, 50, 17, 2, 1]) for x in f["sizes"]]
    fres = vcheck.parallel(script.frag_execute, fsp)
    results = results + fres
    common.judge(chk, results, "TraceMonFragsize", "TraceMonFragsize.cfg", "fragsize", key="C15")
    chk.cov["evaluations"] = sum(r["stats"].get("data_answers", 0) for r in results)
    chk.cov["runs"] = len(results)
    chk.cov["scripted_size_change_runs"] = len(fres)
    sizes = set()
    for r in results:
        for e in r["C15"]:
            if e["e"] == "SetFrag" and e["ok"]:
                sizes.add(e["f"])
    chk.cov["fragment_sizes_set"] = sorted(sizes)
    chk.cov["distinct_nontrivial"] = len({r["label"] for r in results if r["stats"].get("data_answers", 0) > 3})
    chk.cov["rule"] = ("one evaluation = one downstream data answer (payload after the 2-byte header non-empty) "
                       "emitted by the real server; non-trivial = distinct (config, schedule) runs with more than 3 "
                       "data-carrying answers (i.e. multi-fragment downstream traffic)")
    for r in results[:2]:
        chk.sample({"label": r["label"], "events": [e for e in r["C15"] if e["e"] in ("SetFrag", "Data")][:10]})
    chk.assumptions += common.ASSUME_SIM
    return chk.finish()


def replay(path):
    b = json.load(open(path))
    r = common._run_one((b["bundle"]["spec"], ("C15",)))
    print(json.dumps(r["C15"], indent=0)[:6000])
    return 0
