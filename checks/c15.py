"""C15  Downstream fragments never exceed the negotiated fragment size; numbering and last flag."""
import json

import vcheck
from checks import common


def main(tier):
    chk = vcheck.Check("C15", "model_checking", tier)
    seed = vcheck.seed()
    common.model_step(chk, "C15", tier)
    sp = common.fit_frag(common.transfer_specs(tier, seed + 15))
    results = common.run_specs(sp, ["C15"])
    common.judge(chk, results, "TraceMonFragsize", "TraceMonFragsize.cfg", "fragsize", key="C15")
    chk.cov["evaluations"] = sum(r["stats"].get("data_answers", 0) for r in results)
    chk.cov["runs"] = len(results)
    sizes = set()
    for r in results:
        for e in r["C15"]:
            if e["e"] == "SetFrag" and e["ok"]:
                sizes.add(e["f"])
    chk.cov["fragment_sizes_set"] = sorted(sizes)
    chk.cov["distinct_nontrivial"] = len({r["label"] for r in results if r["stats"].get("data_answers", 0) > 3})
    chk.cov["rule"] = ("one evaluation = one downstream data answer (payload after the 2-byte header non-empty) "
                       "emitted by the real server; non-trivial = distinct (config, schedule) runs with more than 3 "
                       "data-carrying answers (i.e. multi-fragment downstream traffic)")
    for r in results[:2]:
        chk.sample({"label": r["label"], "events": [e for e in r["C15"] if e["e"] in ("SetFrag", "Data")][:10]})
    chk.assumptions += common.ASSUME_SIM
    return chk.finish()


def replay(path):
    b = json.load(open(path))
    r = common._run_one((b["bundle"]["spec"], ("C15",)))
    print(json.dumps(r["C15"], indent=0)[:6000])
    return 0
