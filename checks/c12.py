"""C12  A datagram is interpreted from its own bytes only (no stale-buffer over-read).

M: in every Layer-A spec the next state and the outputs are a function of (state, datagram, sender); there is no
   variable for buffer residue, so residue dependence of the implementation is by definition a refinement failure.
G: datagram shapes derived from recorded valid traffic (every truncation point; label lengths, compression
   pointers and question tails reaching exactly to / one past / far past the end; pointers aligned to label
   boundaries of the victim's previous datagram), received in TLC-generated session states right after a victim's
   long valid data query.  Client side: truncated / length-edited answers of every record type (see c06 harness), and
   the reply decoder called directly (drv_down residue mode) on record-boundary cuts under eight buffer paintings.
T: self-composition: each execution is run with different receive-buffer residues and zipped; spec/MonResidue.tla
   accepts a step iff all its outputs agree.
"""
import json

import script
import vcheck
from checks import common, sessions

MODES = {"quick": (1, 4, "5 000a"), "thorough": (1, 4, 2, "5 000a", "5 0100", "5 c00c")}


def run_family(arg):
    spec, modes = arg
    runs_ = []
    san = None
    for m in modes:
        s = dict(spec)
        s["residue"] = dict(spec["residue"], mode=m)
        r = script.execute(s)
        runs_.append(r["c12"])
        san = san or r["san"]
    evs = []
    n = min(len(x) for x in runs_)
    for i in range(n):
        a = runs_[0][i]
        eq = all(x[i]["out"] == a["out"] and x[i]["hex"] == a["hex"] for x in runs_[1:])
        ev = {"e": "Pair", "i": i, "equal": eq, "len": a["len"], "hex": a["hex"][:160], "victim": a["victim"]}
        if not eq:
            ev["outs"] = [json.dumps(x[i]["out"])[:700] for x in runs_]
        evs.append(ev)
    if any(len(x) != n for x in runs_):
        evs.append({"e": "Pair", "i": n, "equal": False, "len": 0, "hex": "", "victim": False,
                    "outs": ["runs have different lengths: %s" % [len(x) for x in runs_]]})
    return {"label": spec["label"], "spec": spec, "c12": evs, "san": san,
            "stats": {"pairs": len(evs), "replied": sum(1 for x in runs_[0] if any(o[0] == "send" for o in x["out"]))}}


def main(tier):
    chk = vcheck.Check("C12", "exploration", tier)
    seed = vcheck.seed() + 12
    sp = sessions.specs(tier, seed, chk)
    if tier == "quick":
        sp = sp[:200]
    for s in sp:
        s["residue"] = {"every": 4, "burst": 8 if tier == "quick" else 25}
        s["label"] = "r" + s["label"]
    results = vcheck.parallel(run_family, [(s, MODES[tier]) for s in sp])
    common.judge(chk, results, "TraceMonResidue", "TraceMonResidue.cfg", "residue",
                 sigfn=lambda r, rej: "server:len%d" % rej["event"].get("len", 0), key="c12")
    from checks import c06
    c06.residue_family(chk, tier, seed)
    c06.history_family(chk, tier, seed)
    # the client's reply decoder itself (read_dns_withq via the include-driver): cut-down variants of real answers of
    # every type x codec x size - every record boundary with RDLENGTH patched to the 0 / 1 / 2 bytes left, and cuts at
    # other places - decoded under eight paintings of the receive buffer; result, bytes and type must all agree
    from checks import funcs
    ns = 8 if tier == "quick" else 16
    prod = funcs.produce("drv_down", [[seed + k, sh, ns, 1, "residue"] for sh in range(ns)
                                      for k in range(1 if tier == "quick" else 6)])
    funcs.san_failures(chk, prod, "residue-decoder")
    dfiles = [p for p, n, rc, err in prod if n > 0]
    dout = funcs.judge_files(chk, "TraceMonResidue", "TraceMonResidue.cfg", dfiles, "residue",
                             sigfn=lambda ev: "decoder:qt%s:%s" % (ev.get("qt"), ev.get("cut")))
    chk.cov["decoder_pairs"] = dout["events"]
    chk.cov["evaluations"] = chk.cov.get("evaluations", 0) + dout["events"]
    chk.cov["evaluations"] = chk.cov.get("evaluations", 0) + sum(r["stats"]["pairs"] for r in results)
    chk.cov["server_datagrams"] = sum(r["stats"]["pairs"] for r in results)
    chk.cov["server_datagrams_answered"] = sum(r["stats"]["replied"] for r in results)
    chk.cov["residue_modes"] = list(MODES[tier])
    chk.cov["distinct_nontrivial"] = chk.cov.get("distinct_nontrivial", 0) + \
        len({e["hex"] for r in results for e in r["c12"] if e["victim"]})
    chk.cov["rule"] = ("one evaluation = one test datagram received under every residue mode (modes: 1 zeros, 4 tail of "
                       "the previous datagram = what a kernel leaves, 2 0xA5); non-trivial = distinct datagrams received "
                       "right after a victim's long valid datagram")
    for r in results[:1]:
        chk.sample({"label": r["label"], "events": r["c12"][:5]})
    chk.assumptions += common.ASSUME_SIM + ["the simulated recv* paints the caller's buffer beyond the datagram (the real "
                                            "kernel leaves the previous contents there)"]
    return chk.finish()


def replay(path):
    b = json.load(open(path))
    r = run_family((b["bundle"]["spec"], MODES["thorough"]))
    print(json.dumps([e for e in r["c12"] if not e["equal"]], indent=0)[:8000])
    return 0
