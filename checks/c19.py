"""C19  Login response follows the documented challenge-response for all inputs.

M: spec/MD5.tla (RFC 1321 over 16-bit halves, validated against the RFC test suite by ASSUME) and spec/Login.tla:
   Response(pw, c) = MD5(pad32(pw) xor be32(c) x 8); Shift(c, +1 / -1) modulo 2^32.
G: drv_login calls the real login_calculate() for passwords of every length 0..40 (arbitrary non-NUL bytes, all-0xFF,
   letters) and challenges {0, 1, -1, 2^31-1, -2^31, byte-order patterns, random}, plus differential pairs (one byte
   >= 32 changed / one of the first 32 changed / one challenge bit flipped); real client+server sessions in raw mode
   with various passwords given with -P or in the environment (clean paths, and paths that drop / duplicate / delay datagrams during the handshake so that
   login messages are re-sent) give the wire events (DNS login message, raw login frame seed+1, raw reply seed-1).
T: TLC evaluates every event against the TLA+ MD5 (an implementation independent of src/md5.c and src/login.c).
"""
import json
import os
import random
import struct

import dnsmsg as D
import proto
import scen
import vcheck
import world as W
from checks import common, funcs


def wire_events(arg):
    import runs
    seed, pw, lossy = arg[:3]
    via = arg[3] if len(arg) > 3 else "arg"
    chal0 = arg[4] if len(arg) > 4 else ()
    flavour = arg[5] if len(arg) > 5 else None
    evs = []
    sess = None
    try:
        relay = None
        if lossy:
            # a path that drops, duplicates and delays datagrams during the handshake: login messages are re-sent, and
            # late copies of earlier answers arrive while the client waits for the raw login reply
            relay = scen.Relay(seed, p_drop=0.25, p_dup=0.3, p_delay=0.25, max_delay=1800000, fault_from=0, fault_to=10 ** 13)
        sess = scen.Session(runs.bdir(flavour), seed=seed, raw=True, qtype=["NULL", "TXT", "CNAME"][seed % 3], password=pw,
                            tag="lg%d" % seed, relay=relay, pw_via=via, challenges=chal0)
        sess.handshake(limit=120_000_000)
        w = sess.w
        chal = {}
        pwb = list(pw.encode("latin-1"))
        for e in w.trace:
            if e["ev"] != "Send":
                continue
            d = e["data"]
            if d[:3] == proto.RAW_HDR and len(d) >= 20 and (d[3] >> 4) == 1 and (d[3] & 15) in chal:
                evs.append({"e": "Wire", "pw": pwb, "seed": chal[d[3] & 15], "delta": 1 if e["inst"] == "C0" else 2,
                            "out": list(d[4:20])})
                continue
            m = D.parse(d)
            if not m.qd:
                continue
            cls = proto.classify_query(m.qd[0][0], sess.domain)
            if e["inst"] == "S" and cls["kind"] == "version" and not m.errors:
                pl = proto.decode_answer(m)
                if pl and pl[:4] == b"VACK" and len(pl) >= 9:
                    chal[pl[8]] = list(pl[4:8])     # the challenge belongs to the session (userid) it was issued for:
                    # on a lossy path the client asks again and the server opens one session per request it sees
            elif e["inst"] == "C0" and cls["kind"] == "login" and cls.get("uid") in chal:
                evs.append({"e": "Wire", "pw": pwb, "seed": chal[cls["uid"]], "delta": 0,
                            "out": list(bytes.fromhex(cls["hash"]))})
    except W.KernelDied as ex:
        # a sanitizer abort / crash of one of the programs in the middle of the login dialogue: no action of the
        # specification matches this event
        import runs as _r
        evs.append({"e": "Abort", "what": (_r.sanitizer_report(ex.stderr_tail) or str(ex))[:600], "pw": pw,
                    "challenges": list(chal0)})
    except W.KernelHang:
        pass
    finally:
        if sess is not None:
            sess.close()
    return evs


def reuse_events(arg):
    """Slot re-use: a raw-mode session logs in, its path goes dead for 64 s (the slot expires), a second client gets the
    same slot with a fresh challenge and logs in in raw mode.  Every login message on the wire is judged against the
    challenge of the session it belongs to, and a correct raw login must be answered."""
    import runs
    seed, pw = arg
    evs = []
    sess = None
    try:
        relay = scen.Relay(seed)
        sess = scen.Session(runs.bdir(), seed=seed, raw=True, qtype="NULL", password=pw, tag="ru%d" % seed, relay=relay)
        sess.handshake(limit=120_000_000)
        w = sess.w
        t0 = w.now
        relay.blackout = [("*", t0, t0 + 64_000_000)]
        w.run_until(t=t0 + 66_000_000)
        cargs = ["-f", "-P", pw, "-T", "NULL", W.SERVER_IP, sess.domain]
        w.spawn("C1", "C1", cargs)
        w.run_until(t=w.now + 30_000_000)
        pwb = list(pw.encode("latin-1"))
        chal = {}           # userid -> current challenge (latest VACK for that slot)
        pending = None
        for e in w.trace:
            if e["ev"] != "Send":
                continue
            d = e["data"]
            if d[:3] == proto.RAW_HDR and len(d) >= 20 and (d[3] >> 4) == 1 and (d[3] & 15) in chal:
                cli = e["inst"] != "S"
                evs.append({"e": "Wire", "pw": pwb, "seed": chal[d[3] & 15], "delta": 1 if cli else 2, "out": list(d[4:20])})
                if cli:
                    if pending is not None and pending["t"] + 900_000 < e["t"]:
                        evs.append({"e": "RawAnswered", "answered": False, "who": pending["inst"]})
                    pending = {"t": e["t"], "inst": e["inst"]}
                elif pending is not None:
                    evs.append({"e": "RawAnswered", "answered": True, "who": pending["inst"]})
                    pending = None
                continue
            m = D.parse(d)
            if not m.qd:
                continue
            cls = proto.classify_query(m.qd[0][0], sess.domain)
            if e["inst"] == "S" and cls["kind"] == "version" and not m.errors:
                pl = proto.decode_answer(m)
                if pl and pl[:4] == b"VACK" and len(pl) >= 9:
                    chal[pl[8]] = list(pl[4:8])
            elif e["inst"] != "S" and cls["kind"] == "login" and cls.get("uid") in chal:
                evs.append({"e": "Wire", "pw": pwb, "seed": chal[cls["uid"]], "delta": 0, "out": list(bytes.fromhex(cls["hash"]))})
        # only logins sent while the path was open can be expected to be answered
        evs = [x for x in evs if x["e"] != "RawAnswered" or x["answered"] or x["who"] == "C1"]
    except (W.KernelHang, W.KernelDied):
        pass
    finally:
        if sess is not None:
            sess.close()
    return evs


def main(tier):
    chk = vcheck.Check("C19", "exploration", tier)
    seed = vcheck.seed() + 19
    res = vcheck.tlc("Login", "Login_mc.cfg", workers=2, timeout=300, heap="2g")
    chk.add_model("MD5.tla RFC 1321 test suite + Login.tla sanity (ASSUME)", res)
    if not res.ok:
        chk.broken.append("MD5/Login ASSUMEs failed: %s" % (res.violation or res.out[-500:]))
    ns = 16
    per = 25 if tier == "quick" else 1300
    prod = funcs.produce("drv_login", [[seed * 1000 + i, per if i else 60] for i in range(ns)])
    funcs.san_failures(chk, prod, "login")
    files = [p for p, n, rc, err in prod if n > 0]
    # the same on a platform where plain char is unsigned (ARM / PowerPC Linux: -funsigned-char)
    prod_u = funcs.produce("drv_login", [[seed * 1000 + 500 + i, per if i else 60] for i in range(4)], flavour="uchar")
    funcs.san_failures(chk, prod_u, "login-uchar")
    files += [p for p, n, rc, err in prod_u if n > 0]
    rng = random.Random(seed)
    pws = ["a", "s3cret-pw", "p" * 31, "q" * 32, "r" * 33 + "tail", "\xff\xfe\x80\x01 x", "Z" * 40]
    if tier != "quick":
        pws += ["".join(chr(rng.randrange(1, 256)) for _ in range(rng.randrange(1, 41))) for _ in range(40)]
    wires = vcheck.parallel(wire_events, [(seed * 50 + i, pw, False) for i, pw in enumerate(pws)] +
                            [(seed * 50 + 1000 + 10 * i + k, pw, True) for i, pw in enumerate(pws)
                             for k in range(4 if tier == "quick" else 12)])
    # the programs' other way of being given the password: the environment (IODINE_PASS / IODINED_PASS), client only,
    # server only and both
    wires += vcheck.parallel(wire_events, [(seed * 50 + 5000 + 3 * i + k, pw, False, via) for i, pw in enumerate(pws)
                                           for k, via in enumerate(["env", "cenv", "senv"])])
    # boundary challenges (the server's rand() is the harness's): challenge + 1 / - 1 at the edges of the 31-bit values
    # rand() returns
    edge = [0, 1, 2, 0x7fffffff, 0x7ffffffe, 0x7fffff00, 0x00ffffff, 0x7f000000, 0x0000ffff, 0x00010000, 255, 256]
    wires += vcheck.parallel(wire_events, [(seed * 50 + 6000 + i, pws[i % len(pws)], False, "arg", [c, c]) for i, c in enumerate(edge)])
    # ... and real sessions of programs built for an unsigned-char platform (the wire values must be the same)
    wires += vcheck.parallel(wire_events, [(seed * 50 + 7000 + i, pw, False, ["arg", "env"][i % 2], [[0, 0], [0x7fffffff] * 2, ()][i % 3], "uchar")
                                           for i, pw in enumerate(pws)])
    wires += vcheck.parallel(reuse_events, [(seed * 50 + 3000 + i, pw) for i, pw in enumerate(pws[:4 if tier == "quick" else 20])])
    wpath = os.path.join(vcheck.scratch(), "wire-%d.ndjson" % os.getpid())
    nw = 0
    with open(wpath, "w") as f:
        for evs in wires:
            for e in evs:
                f.write(json.dumps(e) + "\n")
                nw += 1
    if nw:
        files.append(wpath)
    _, dn = funcs.survey(chk, files, lambda ev: ev.get("e") in ("Login", "Wire", "RawAnswered"))
    out = funcs.judge_files(chk, "TraceLogin", "TraceLogin.cfg", files, "login",
                            sigfn=lambda ev: "%s:delta%s" % (ev.get("e"), ev.get("delta", "")) if ev.get("e") != "Abort" else
                            "Abort:" + vcheck.san_signature(ev.get("what", "")))
    chk.cov["evaluations"] = out["events"]
    chk.cov["wire_events"] = nw
    chk.cov["wire_kinds"] = sorted({e["delta"] for evs in wires for e in evs if "delta" in e})
    chk.cov["raw_logins_answered"] = sum(1 for evs in wires for e in evs if e["e"] == "RawAnswered" and e["answered"])
    chk.cov["distinct_nontrivial"] = dn
    chk.cov["rule"] = ("one evaluation = one login_calculate() call, differential pair or wire message judged by TLC against "
                       "the TLA+ MD5; non-trivial = distinct (password, challenge, result) call and wire events")
    if nw == 0:
        chk.broken.append("no wire events recorded")
    chk.assumptions += ["TLC/JVM and the CommunityModules Bitwise overrides trusted; MD5.tla validated against RFC 1321 A.5"]
    return chk.finish()


def replay(path):
    print(json.dumps(json.load(open(path))["bundle"], indent=0)[:3000])
    return 0
