"""C20  Forwarded non-tunnel queries get their reply routed back to the asker.

M: TLC model-checks spec/FwQuery.tla (RING = 3, 3 requesters, ids from a 3-element domain incl. 0: RoutedToAsker,
   SameId, RingIsRecent) exhaustively.
G: histories exported from TLC: ALL paths of FwQuery.tla to depth 4 (quick: depth 3 + a sample of depth 4) and simulated
   60-step histories with RING = 16 and 20 ids (more than 16 outstanding, id reuse), executed on the real iodined -b
   with scripted requesters and a scripted local resolver.
T: spec/MonFwd.tla judges every forwarded query and every relayed reply; B: binding to FwQuery.tla (exact first-match).
"""
import json
import random
import re

import fwd
import vcheck
from checks import common

_hist = re.compile(r'^<<"HIST", "(.*)">>$', re.M)


def histories(chk, module, cfg, **kw):
    r = vcheck.tlc(module, cfg, workers=4, timeout=600, heap="4g", **kw)
    out = []
    for m in _hist.finditer(r.out):
        try:
            out.append(json.loads(m.group(1).replace('\\"', '"').replace("\\\\", "\\")))
        except ValueError:
            pass
    chk.cov.setdefault("history_generators", []).append({"cfg": cfg, "histories": len(out), "wall_s": round(r.wall, 1)})
    if not out:
        chk.broken.append("no histories from %s: %s" % (cfg, r.broken or r.out[-500:]))
    return out


def main(tier):
    chk = vcheck.Check("C20", "model_checking", tier)
    seed = vcheck.seed() + 20
    res = vcheck.tlc("FwQuery", "FwQuery_small.cfg", workers=8, timeout=600, heap="4g")
    chk.add_model("FwQuery_small.cfg", res)
    if res.violation:
        chk.broken.append("spec-level violation: " + res.violation)
    rng = random.Random(seed)
    paths = histories(chk, "MCFwQuery", "FwQuery_paths.cfg")
    if tier == "quick":
        d3 = {json.dumps(p[:3]) for p in paths}
        paths = [json.loads(x) for x in sorted(d3)] + rng.sample(paths, min(len(paths), 1500))
        chk.cov["exhaustive"] = True
        chk.cov["exhaustive_what"] = "all 1728 histories of length 3 over 3 requesters x ids {0,7,9}; 1500 sampled of length 4"
    else:
        chk.cov["exhaustive"] = True
        chk.cov["exhaustive_what"] = "all 20736 histories of length 4 over 3 requesters x ids {0,7,9}"
    sims = histories(chk, "MCFwQuery", "FwQuery_sim.cfg", simulate=(40 if tier == "quick" else 1000), depth=62,
                     extra=["-seed", str(seed)])
    specs = [{"seed": seed * 100000 + i, "hist": h, "label": "fw%d" % i} for i, h in enumerate(paths + sims)]
    results = vcheck.parallel(fwd.execute, specs)
    common.judge(chk, results, "TraceMonFwd", "TraceMonFwd.cfg", "fwd",
                 sigfn=lambda r, rej: str(rej["event"].get("e")), key="c20")
    out = vcheck.validate_executions("TraceFwQuery", "TraceFwQuery.cfg", [r["c20"] for r in results])
    chk.cov["layerA_bound_traces"] = out["validated"]
    chk.cov["drift_count"] = len(out["rejected"])
    chk.cov["drift"] = [{"run": results[x["index"]]["label"], "event": x["event"]} for x in out["rejected"][:5]]
    for r in results:
        if r["san"]:
            chk.violation("fwd:sanitizer:" + vcheck.san_signature(r["san"]), "sanitizer report in %s: %s" % (r["label"], r["san"][:1200]),
                          {"spec": r["spec"]})
    chk.cov["evaluations"] = sum(r["stats"].get("steps", 0) for r in results)
    chk.cov["histories"] = len(results)
    chk.cov["distinct_nontrivial"] = len({json.dumps(r["spec"]["hist"]) for r in results
                                          if sum(1 for e in r["c20"] if e["e"] == "Reply" and e["nsent"]) >= 1})
    chk.cov["rule"] = ("one evaluation = one forwarded query or relayed reply handled by the real iodined -b; non-trivial = "
                       "distinct histories in which at least one reply was routed back")
    for r in results[-1:]:
        chk.sample({"label": r["label"], "events": r["c20"][:12]})
    chk.assumptions += common.ASSUME_SIM
    return chk.finish()


def replay(path):
    b = json.load(open(path))
    r = fwd.execute(b["bundle"]["spec"])
    print(json.dumps(r["c20"], indent=0)[:6000])
    return 0
