"""C01  Tunnel never delivers a packet that was not sent (end-to-end integrity).

M: TLC model-checks spec/Tunnel.tla (Integrity, NoForeignUnit) and spec/RawTunnel.tla (raw UDP mode: Integrity,
   NeverTruncated, DoneDelivered) at small constants.
G: real iodine + real iodined through a relay, configurations x packets x fault schedules.
B: every iteration of the real server's and the real client's loop in those runs must be a step of Tunnel.tla
   (TraceTunnelSrv / TraceTunnelCli; raw-mode runs: TraceRawTunnel against RawTunnel.tla; drift only).
T: every tun write of every run is judged by TLC against spec/MonIntegrity.tla.
"""
import json
import random

import runs
import vcheck
from checks import common


def specs(tier, seed):
    n_cfg = 48 if tier == "quick" else 400
    cfgs = common.configs(n_cfg, seed)
    out = []
    scheds = common.schedules(tier)
    for i, (sess, relay) in enumerate(cfgs):
        for j, sch in enumerate(scheds):
            if tier == "quick" and (i + j) % 2 and j > 1:
                continue
            s = {"seed": seed * 100000 + i * 100 + j, "sess": sess, "relay": dict(relay, **sch.get("relay", {})),
                 "pkts": common.packets(seed + i * 31 + j, tier), "dur_ms": 45000}
            for k in ("fault_ms", "plan", "blackout_ms"):
                if k in sch:
                    s[k] = sch[k]
            s["label"] = "cfg%d/%s" % (i, sch["name"])
            out.append(s)
    # raw mode and client-to-client forwarding
    extra = 6 if tier == "quick" else 60
    for i in range(extra):
        out.append({"seed": seed * 100000 + 90000 + i, "sess": {"qtype": "NULL", "raw": True},
                    "relay": {"p_drop": 0.1 * (i % 3), "p_dup": 0.1 * (i % 2)}, "fault_ms": [0, 20000],
                    "pkts": common.packets(seed + 7000 + i, tier), "dur_ms": 40000, "label": "raw%d" % i})
        out.append({"seed": seed * 100000 + 91000 + i,
                    "sess": {"qtype": ["NULL", "TXT", "CNAME"][i % 3], "nclients": 2, "lazy": i % 2,
                             "fragsize": [None, 100, 300][i % 3]},
                    "relay": {"p_drop": 0.08 * (i % 3), "p_dup": 0.1 * (i % 2), "p_delay": 0.1},
                    "fault_ms": [0, 20000], "pkts": common.packets(seed + 8000 + i, tier, c2c=True),
                    "dur_ms": 50000, "label": "c2c%d" % i})
    # abandoned upstream packet followed by its "twin": the client gives a packet up after three unanswered
    # retransmissions while the server still holds its first fragment; the next packet differs from it only in a way
    # the Adler-32 checksum cannot see
    k = 0
    for qt in (["NULL", "TXT", "CNAME", "MX"] if tier == "quick" else common.QTYPES):
        for lazy in (0, 1):
            for end in ((4700, 5100) if tier == "quick" else (4300, 4700, 4900, 5100, 5400, 5800)):
                for size in ((400,) if tier == "quick" else (300, 400, 700)):
                    k += 1
                    out.append({"seed": seed * 100000 + 95000 + k, "sess": {"qtype": qt, "lazy": lazy},
                                "relay": {}, "blackout_ms": [["a", 1000, end]],
                                "pkts": [[1000, "C0", "S", "twinA:%d" % k, size], [6000, "C0", "S", "twinB:%d" % k, size],
                                         [9000, "C0", "S", "rand", 100]],
                                "dur_ms": 20000, "label": "abandon%d/%s" % (k, qt)})
    # tun traffic during retransmission: the ack of a non-first fragment is lost for two timeouts (the client then
    # polls its tun again), a twin packet arrives in that window, then the path recovers before the packet is abandoned
    for qt in (["NULL", "TXT", "MX"] if tier == "quick" else common.QTYPES):
        for lazy in (0, 1):
            for start in ((1002, 1003) if tier == "quick" else (1002, 1003, 1004, 1005)):
                for end in ((3400,) if tier == "quick" else (3300, 3400, 3700)):
                    k += 1
                    out.append({"seed": seed * 100000 + 96000 + k, "sess": {"qtype": qt, "lazy": lazy},
                                "relay": {}, "blackout_ms": [["a", start, end]],
                                "pkts": [[1000, "C0", "S", "twinA:%d" % k, 500], [3100, "C0", "S", "twinB:%d" % k, 500],
                                         [9000, "C0", "S", "rand", 100]],
                                "dur_ms": 20000, "label": "overwrite%d/%s" % (k, qt)})
    # late copy at the sequence-number wrap: seven small downstream packets (seq 1..7), then a crafted multi-fragment one
    # (seq 0) whose image carries complete zlib streams of a never-offered frame at its fragment boundaries; copies of
    # the answer that carried packet 7 arrive between the fragments of packet 8.  Only the "recently seen sequence
    # number" window keeps the stale fragment from being taken for a new packet.
    for i in range(8 if tier == "quick" else 64):
        F = [100, 120, 150, 200][i % 4]
        gap = [40, 80, 200][i % 3]
        t7 = 400 + 6 * 300
        pk = [[400 + 300 * j, "S", "C0", "text", 30 + j] for j in range(7)] + \
            [[t7 + gap, "S", "C0", "embed:%d" % F, 3 * F + 60 + 20 * (i % 5)]] + \
            [[t7 + gap + 3000, "S", "C0", "rand", 50], [t7 + gap + 3500, "C0", "S", "rand", 300]]
        # ONE late copy per run (each further copy would restart the reassembly again), timed to land between the first
        # two fragments of packet 8 - only then is its DNS id still among the client's last three
        delays = [gap * 1000 + [1300, 1700, 2100, 2500, 900, 2900, 1500, 1900][(i // 4 + i) % 8]]
        out.append({"seed": seed * 100000 + 97000 + i,
                    "sess": {"qtype": ["NULL", "PRIVATE"][i % 2], "lazy": 1, "fragsize": F},
                    "relay": {"dup_down": [{"dseq": 7, "delays_us": delays}]}, "pkts": pk, "dur_ms": 15000,
                    "label": "wrapdup%d" % i})
    # a slot with history: its earlier tenant vanished in the middle of a (crafted) downstream packet - first fragment
    # acknowledged, second in flight; a minute later the run's own client is given the slot.  Nothing of the old packet
    # may reach it.
    for i in range(6 if tier == "quick" else 40):
        F = [100, 150, 200][i % 3]
        out.append({"seed": seed * 100000 + 98000 + i,
                    "sess": {"qtype": common.QTYPES[i % 7], "lazy": i % 2, "prior": {"frag": F, "halfsent": True},
                             "fragsize": [None, 100, 300][(i // 3) % 3]},
                    "relay": {}, "pkts": [[300, "S", "C0", "rand", 200], [600, "C0", "S", "rand", 200], [2000, "S", "C0", "text", 700]],
                    "dur_ms": 12000, "label": "stale%d" % i})
    # false acknowledgement at the upstream sequence-number wrap: seven small upstream packets (seq 1..7), then a crafted
    # multi-fragment one (seq 0) whose image carries a complete zlib stream of a never-offered frame at the start of its
    # second fragment.  A downstream packet completes at the client while the query with fragment 0 is still on its way
    # (the path holds it back: it is overtaken by whatever the client sends next).  Only the client's ack matching keeps
    # it from sending fragment 1 before the server has fragment 0.
    for i in range(12 if tier == "quick" else 96):
        T = 400 + 7 * 300
        b = [-0.8, -0.3, 0.0, 0.5, -2.0, 0.9][i % 6]
        hold = [4000, 30000, 200000, 700000][(i // 2) % 4]
        lazy = 0 if i % 6 == 5 else 1
        pk = [[400 + 300 * j, "C0", "S", "text", 30 + j] for j in range(7)] + \
            [[T, "S", "C0", ["rand", "text", "zero"][i % 3], 40 + 30 * (i % 4)], [T + b, "C0", "S", "embedfit:1", 300],
             [T + 3000, "C0", "S", "rand", 50], [T + 3500, "S", "C0", "rand", 300]]
        out.append({"seed": seed * 100000 + 99000 + i,
                    "sess": {"qtype": ["NULL", "TXT", "CNAME", "SRV"][(i // 3) % 4], "lazy": lazy,
                             "maxlen": [None, 200, 120][(i // 4) % 3]},
                    "relay": {"hold_up": [{"useq": 0, "ufrag": 0, "delay_us": hold, "count": 1}]}, "pkts": pk,
                    "dur_ms": 15000, "label": "upwrap%d" % i})
    # beyond the 16-fragment limit with content chosen against it: a small hostname limit makes an ordinary-sized upstream
    # packet need 17 fragments; its image carries a complete zlib stream of a never-offered frame exactly where fragment
    # 16 (the one the 4-bit fragment number cannot express) begins.  The packet may be dropped - never mis-reassembled.
    for i in range(10 if tier == "quick" else 80):
        ml = [100, 84, 120, 110, 92][i % 5]
        lead = 1 + i % 3            # the crafted packet is the 2nd / 3rd / 4th of the session: even and odd sequence numbers
        pk = [[300 + 400 * j, "C0", "S", "text", 30 + j] for j in range(lead)] + \
            [[300 + 400 * lead, "C0", "S", "embedfit:%d" % [16, 16, 17, 15][i % 4], 200],
             [6000, "C0", "S", "rand", 60], [6500, "S", "C0", "rand", 200]]
        out.append({"seed": seed * 100000 + 99500 + i,
                    "sess": {"qtype": ["NULL", "TXT", "CNAME", "MX"][(i // 2) % 4], "lazy": i % 2, "maxlen": ml},
                    "relay": {}, "pkts": pk, "dur_ms": 15000, "label": "frag17-%d" % i})
    # a few ordinary transfers with both programs compiled for a platform where plain char is unsigned
    for i in range(4 if tier == "quick" else 40):
        out.append({"seed": seed * 100000 + 99800 + i, "flavour": "uchar",
                    "sess": {"qtype": common.QTYPES[i % 7], "lazy": i % 2, "downenc": common.DOWNENCS[i % 5]},
                    "relay": {"p_drop": 0.1 * (i % 2), "p_dup": 0.1}, "fault_ms": [0, 15000],
                    "pkts": common.packets(seed + 9000 + i, tier), "dur_ms": 30000, "label": "uchar%d" % i})
    return common.fit_frag(out)


def _run(spec):
    r = runs.execute(spec, want=("C01", "TSRV", "TCLI", "TRAW"))
    return {"label": spec.get("label"), "spec": spec, "events": r["mon"].get("C01", []), "stats": r["stats"],
            "TSRV": r["mon"].get("TSRV"), "TCLI": r["mon"].get("TCLI"), "TRAW": r["mon"].get("TRAW"),
            "fabricated": r.get("fabricated"), "san": bool(r["san"]), "hang": r["hang"], "error": r["error"]}


def main(tier):
    chk = vcheck.Check("C01", "model_checking", tier)
    seed = vcheck.seed()
    common.model_step(chk, "C01", tier)
    sp = specs(tier, seed)
    results = vcheck.parallel(_run, sp)
    common.judge(chk, results, "TraceMonIntegrity", "TraceMonIntegrity.cfg", sig_prefix="integrity")
    common.bind_tunnel(chk, results)
    nontriv = set()
    for r in results:
        st = r["stats"]
        faults = sum(v for k, v in st.get("fates", {}).items() if k != "ok")
        big = sum(1 for p in r["spec"].get("pkts", []) if p[4] >= 300 and p[3] == "rand")
        if st.get("writes", 0) > 0 and faults > 0 and big > 0:
            nontriv.add(r["label"])
    chk.cov["evaluations"] = len(results)
    chk.cov["distinct_nontrivial"] = len(nontriv)
    chk.cov["rule"] = ("one evaluation = one simulated run of real iodine+iodined (config x packets x fault schedule); "
                       "non-trivial = distinct (config, schedule) label with at least one tun write, at least one "
                       "incompressible packet >= 300 bytes offered (multi-fragment) and at least one datagram hit by a fault")
    chk.cov["tun_writes_judged"] = sum(r["stats"].get("writes", 0) for r in results)
    chk.cov["packets_offered"] = sum(r["stats"].get("offers", 0) for r in results)
    chk.cov["handshake_failures"] = sum(1 for r in results if not r["stats"].get("handshake"))
    chk.cov["hangs"] = sum(1 for r in results if r["hang"])
    for r in results[:3]:
        chk.sample({"label": r["label"], "sess": r["spec"]["sess"], "relay": r["spec"]["relay"],
                    "fates": r["stats"].get("fates"), "events": r["events"][:12]})
    chk.assumptions += common.ASSUME_SIM + [common.A_ZLIB]
    return chk.finish()


def replay(path):
    b = json.load(open(path))
    spec = b["bundle"]["spec"]
    r = _run(spec)
    print(json.dumps({"events": r["events"], "stats": r["stats"], "fabricated": r["fabricated"]}, indent=1)[:4000])
    return 0
