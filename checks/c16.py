"""C16  Re-delivered queries are never processed twice."""
import json
import random

import vcheck
from checks import common


def specs(tier, seed):
    rng = random.Random(seed)
    out = []
    n_cfg = 40 if tier == "quick" else 600
    cfgs = common.configs(n_cfg, seed + 16)
    backs = [0, 0, 1, 2, 3, 4, 5, 8, 12, 15, 16, 20, 29, 30]
    for i, (sess, relay) in enumerate(cfgs):
        sess = dict(sess)
        base32 = relay.get("qcase") in ("random", "lower")
        red = {}
        nq = 8 if tier == "quick" else 14
        for _ in range(nq * 6):
            n = rng.randrange(1, 140)
            back = rng.choice(backs)
            flip = base32 and rng.random() < 0.4
            red.setdefault(n, []).append([back, int(rng.random() < 0.5), int(flip), 0,
                                          rng.choice([0, 200, 3000, 15000, 40000])])
        sp = {"seed": seed * 100000 + 1600 + i, "sess": sess, "relay": dict(relay), "redeliver": red,
              "pkts": common.packets(seed + 160 + i, tier), "dur_ms": 40000, "label": "red%d" % i}
        if i % 4 == 3:
            kinds = ["switchcodec", "option", "setfrag", "login", "ipreq"]
            sp["redeliver_hs"] = {n: [[kinds[(n + i) % 5], rng.choice([0, 300, 5000])]] for n in range(4, 120, 9)}
        out.append(sp)
    # -c (no source check): re-delivery from another relay address
    for i in range(6 if tier == "quick" else 60):
        red = {}
        for _ in range(40):
            red.setdefault(rng.randrange(1, 120), []).append([rng.choice(backs), int(rng.random() < 0.5), 0, 1,
                                                              rng.choice([0, 500, 20000])])
        out.append({"seed": seed * 100000 + 1700 + i,
                    "sess": {"qtype": common.QTYPES[i % 7], "lazy": 1, "server_args": ["-c"]},
                    "relay": {}, "redeliver": red, "pkts": common.packets(seed + 170 + i, tier),
                    "dur_ms": 40000, "label": "redc%d" % i})
    # many case-flipped re-deliveries of currently held queries (back = 0), Base32 upstream
    for i in range(6 if tier == "quick" else 40):
        red = {}
        for n in range(3, 150, 1 + i % 3):
            red[n] = [[0, j % 2, 1, 0, 100 + 300 * j] for j in range(1 + (n + i) % 7)]
        out.append({"seed": seed * 100000 + 1800 + i,
                    "sess": {"qtype": common.QTYPES[i % 7], "lazy": 1, "fragsize": [100, None, 300][i % 3]},
                    "relay": {"qcase": "lower"}, "redeliver": red,
                    "pkts": common.packets(seed + 180 + i, tier), "dur_ms": 40000, "label": "redflip%d" % i})
    # dense single-fragment upstream traffic (several packets per second, so upstream sequence numbers advance 4..7
    # within the 15-query memory) with case-flipped re-deliveries from 5..14 queries back
    for i in range(8 if tier == "quick" else 80):
        pk = [[100 + 45 * j, "C0", "S", ["rand", "text"][j % 2], 20 + (j % 3) * 10] for j in range(16)]
        red = {}
        for n in range(6, 70):
            red[n] = [[b, (n + b) % 2, 1, 0, 50 + 40 * k] for k, b in enumerate([5, 6, 8, 10, 12, 14]) if (n + b + i) % 3 == 0]
        sp = {"seed": seed * 100000 + 1900 + i,
              "sess": {"qtype": common.QTYPES[i % 7], "lazy": i % 2, "fragsize": None},
              "relay": {"qcase": "lower"}, "redeliver": red, "pkts": pk, "dur_ms": 20000, "label": "reddense%d" % i}
        if i % 2:
            # ... and late copies of the session's own handshake queries (codec switch, option, fragment size, login,
            # address request) arrive in between: none of them makes the server forget what it has seen
            kinds = ["switchcodec", "option", "setfrag", "login", "ipreq", "switchcodec"]
            sp["redeliver_hs"] = {n: [[kinds[(n // 7 + i // 2 + j) % 6], 30 + 400 * j] for j in range(1 + n % 2)]
                                  for n in range(5 + i % 3, 60, 7)}
            sp["label"] = "redhs%d" % i
        out.append(sp)
    # a downstream packet that needs more than 16 fragments stalls at fragment 16 (its acks can never match) and is
    # re-sent with every answer until the re-send limit drops it: every case-flipped copy of the HELD ping that is
    # processed as a query of its own is one more re-send, and some of them are the one that drops the packet (only
    # the first copy of a ping can be: once the held ping is answered the query memory suppresses the others, so the
    # copies are left out for every third ping to vary which send is the one that crosses the limit)
    for i in range(8 if tier == "quick" else 60):
        red = {}
        for n in range(3, 160):
            red[n] = [[0, (n + j) % 2, 1 + j, 0, 20 + 25 * j] for j in range(0 if (n + i) % 3 == 0 else 1 + (n // 3) % 2)]
        out.append({"seed": seed * 100000 + 2000 + i,
                    "sess": {"qtype": common.QTYPES[i % 7], "lazy": 1, "fragsize": [3, 5, 8][i % 3]},
                    "relay": {"qcase": "lower"}, "redeliver": red, "nofit": True,
                    "pkts": [[100 + 5000 * j, "S", "C0", "rand", 200 + 100 * (j % 3)] for j in range(6)],
                    "dur_ms": 40000, "label": "redstall%d" % i})
    # the 3-bit downstream sequence number comes round again after eight packets: a multi-fragment packet, seven small
    # ones, then another multi-fragment packet with the same sequence number - and while one of ITS fragments is waiting
    # for its acknowledgement, the path delivers again the ping that acknowledged that fragment number eight packets ago
    # (still inside the 30-ping memory, no longer in the answer cache)
    for i in range(8 if tier == "quick" else 64):
        fs = [100, 150, 200, 120][i % 4]
        big = 3 * fs + 30 + 10 * (i % 3)
        gap = 250
        t2 = 300 + gap * 8
        f = [0, 1, 0, 2][(i // 2) % 4]         # the fragment whose old acknowledgement is replayed
        pk = [[300, "S", "C0", "rand", big]] + [[300 + gap * j, "S", "C0", "text", 30 + j] for j in range(1, 8)] + \
            [[t2, "S", "C0", "rand", big], [t2 + 3000, "S", "C0", "rand", 80], [t2 + 3500, "C0", "S", "rand", 80]]
        # fragment f of the second big packet goes out at t2 + 2 ms * f and is acknowledged 2 ms later (1 ms each way)
        at = [t2 * 1000 + 2000 * f + d for d in ([400, 1500] if i % 2 else [900])]
        out.append({"seed": seed * 100000 + 2100 + i,
                    "sess": {"qtype": ["NULL", "PRIVATE", "TXT", "MX"][(i // 4) % 4], "lazy": 1, "fragsize": fs},
                    "relay": {}, "replay_ack": [{"dseq": 1, "dfrag": f, "at_us": at, "newid": 1, "otherport": (i // 2) % 2}],
                    "pkts": pk, "dur_ms": 12000, "label": "redwrap%d" % i})
    out = common.fit_frag(out)
    # regression scenarios: recorded runs that exposed a genuine defect (known_findings.json, "fixed:" entries)
    import glob
    import os
    for f in sorted(glob.glob(os.path.join(os.path.dirname(__file__), "regress", "c16-*.json"))):
        sp = json.load(open(f))
        sp["label"] = "regress/" + os.path.basename(f)[:-5]
        out.append(sp)
    return out


def sig(r, rej):
    e = rej["event"]
    if e.get("e") != "Redeliver":
        return str(e.get("e"))
    what = "pos" if e["pos0"] != e["pos1"] else "payload"
    return "%s:%s:%s:%s" % (what, e["kind"], "pending" if e["pending"] else "answered",
                            "flip" if "flip" in e.get("tag", "") else "same")


def main(tier):
    chk = vcheck.Check("C16", "model_checking", tier)
    seed = vcheck.seed()
    common.model_step(chk, "C16", tier)
    results = common.run_specs(specs(tier, seed), ["C16", "TSRV", "TCLI"])
    common.judge(chk, results, "TraceMonRedelivery", "TraceMonRedelivery.cfg", "redelivery", sigfn=sig, key="C16")
    common.bind_tunnel(chk, results)
    n = 0
    kinds = set()
    for r in results:
        for e in r["C16"]:
            if e["e"] == "Redeliver":
                n += 1
                kinds.add((e["kind"], e["pending"], e["answered"], e["tag"]))
    chk.cov["evaluations"] = n
    chk.cov["distinct_nontrivial"] = len(kinds)
    chk.cov["runs"] = len(results)
    chk.cov["rule"] = ("one evaluation = one re-delivered ping/data query processed by the real server; distinct = "
                       "distinct (kind, pending?, answered?, {new id, flipped case, other port, distance back}) classes")
    for r in results[:2]:
        chk.sample({"label": r["label"], "events": [e for e in r["C16"] if e["e"] == "Redeliver"][:5]})
    chk.assumptions += common.ASSUME_SIM
    return chk.finish()


def replay(path):
    b = json.load(open(path))
    r = common._run_one((b["bundle"]["spec"], ("C16",)))
    print(json.dumps([e for e in r["C16"] if e["e"] == "Redeliver"], indent=0)[:6000])
    return 0
