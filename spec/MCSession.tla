------------------------------ MODULE MCSession ------------------------------
EXTENDS Session
SeedBound == nseed <= MaxSeeds
QuickUids == 0..USERS
\* reachability probes (expected to be VIOLATED)
NeverRaw == \A u \in Slots : conn[u] = "dns"
NeverForward == \A e \in eff : e.k # "Forward"
=============================================================================
