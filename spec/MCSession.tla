------------------------------ MODULE MCSession ------------------------------
EXTENDS Session
SeedBound == nseed <= MaxSeeds
QuickUids == 0..USERS
\* reachability probes (expected to be VIOLATED)
NeverRaw == \A u \in Slots : conn[u] = "dns"
NeverForward == \A e \in eff : e.k # "Forward"
\* C03: a privileged act does happen; C04: a foreign request for a live session is refused, an expired session's slot is
\* handed out again, an expired session's own request is refused
ProbeNoPriv == \A e \in eff : e.k \notin Privileged
ProbeNoSpoofRefused == ~(CheckIp /\ reply = "BADIP" /\ msg.c \in DnsCmds /\ msg.uid \in Slots /\ active[msg.uid] /\ msg.src # host[msg.uid])
ProbeNoExpiredRefusal == ~(reply = "BADIP" /\ msg.c \in DnsCmds /\ msg.uid \in Slots /\ msg.src = host[msg.uid] /\ age[msg.uid] > EXP)
=============================================================================
