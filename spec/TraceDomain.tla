------------------------------ MODULE TraceDomain ------------------------------
EXTENDS Domain, TraceBase
DomainList == <<<<97, 46, 98>>, <<97, 98, 46, 97>>, <<97, 46, 98, 46, 97>>, <<42, 46, 97, 46, 98>>, <<42, 46, 97, 98>>, <<98, 45, 97, 46, 97, 48>>, <<42, 46, 98, 46, 97, 46, 98>>, <<65, 46, 98>>>>    \* a.b ab.a a.b.a *.a.b *.ab b-a.a0 *.b.a.b A.b
VARIABLE l
tvars == <<n, l>>
TInit == DInit /\ l = 1
Ev == TraceLog[l]
IsEvent(e) == l <= TraceLen /\ Ev.e = e /\ l' = l + 1 /\ UNCHANGED n
TValid == IsEvent("Valid") /\ ValidOK(Ev)
TMatch == IsEvent("Match") /\ MatchOK(Ev)
TMatch1 == IsEvent("Match1") /\ MatchOneOK(Ev)
TDispatch == IsEvent("Dispatch") /\ DispatchOK(Ev)
TReset == IsEvent("Reset")
TNext == TValid \/ TMatch \/ TMatch1 \/ TDispatch \/ TReset
TraceSpec == TInit /\ [][TNext]_tvars
TraceAccepted ==
    LET d == TLCGet("stats").diameter IN
    /\ PrintT(<<"TRACE_REACHED", d - 1, TraceLen>>)
    /\ d - 1 = TraceLen
=============================================================================
