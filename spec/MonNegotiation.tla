---------------------------- MODULE MonNegotiation ----------------------------
(* Property monitor for C11 (completeness half; soundness - "what was selected   *)
(* survives the path" - is judged on the packets offered after the handshake by  *)
(* MonProgress in clean mode and by MonIntegrity).  Observable:                  *)
(*   Handshake(ok, premise)  the real client's handshake through a relay of the  *)
(*        family ended (ok = it entered the tunnel loop); premise = the relay    *)
(*        passes Base32 names and answers up to 512 bytes for at least one       *)
(*        supported record type and nothing was forced by the user               *)
EXTENDS Naturals
VARIABLE n
MNInit == n = 0
Handshake(ok, premise) == (premise => ok) /\ n' = n + 1
MNReset == n' = 0
=============================================================================
