SPECIFICATION Spec
CONSTANTS
  USERS = 2
  Srcs = {1, 2}
  EXP = 2
  CheckIp = TRUE
  Dts = {1, 2}
  OUTCAP = 1
  MaxSeeds = 2
  CodecArgs = {"b64", "bad"}
  OptArgs = {"S", "L", "bad"}
  FragArgs = {1, 60}
CONSTRAINT SeedBound
VIEW StateView
INVARIANTS
  TypeOK
  AuthedImpliesAnswered
  RawImpliesAuthed
  LookupExact
PROPERTIES
  PrivilegedOnlyIfAnswered
  SpoofRefused
  RebindOnlyByRawLogin
  Routing
  ForwardOnlyToOwner
  NoTakeover
  ExpiredRefused
  ExpiredReusable
CHECK_DEADLOCK FALSE
