SPECIFICATION TraceSpec
CONSTANTS
  HoldMax = 2
  Strict = FALSE
POSTCONDITION TraceAccepted
CHECK_DEADLOCK FALSE
