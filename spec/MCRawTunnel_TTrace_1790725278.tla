---- MODULE MCRawTunnel_TTrace_1790725278 ----
EXTENDS Sequences, TLCExt, Toolbox, Naturals, TLC, MCRawTunnel

_expression ==
    LET MCRawTunnel_TEExpression == INSTANCE MCRawTunnel_TEExpression
    IN MCRawTunnel_TEExpression!expression
----

_trace ==
    LET MCRawTunnel_TETrace == INSTANCE MCRawTunnel_TETrace
    IN MCRawTunnel_TETrace!trace
----

_inv ==
    ~(
        TLCGet("level") = Len(_TETrace)
        /\
        tunC = (<<>>)
        /\
        tunS = (<<1001, 1001, 1001>>)
        /\
        loss = (0)
        /\
        netUp = ({})
        /\
        upNext = (2)
        /\
        netDn = ({})
        /\
        dnNext = (1)
        /\
        lastact = ("SrvRecv")
        /\
        dup = (2)
        /\
        accS = (<<1001>>)
        /\
        accC = (<<>>)
    )
----

_init ==
    /\ upNext = _TETrace[1].upNext
    /\ accS = _TETrace[1].accS
    /\ netUp = _TETrace[1].netUp
    /\ netDn = _TETrace[1].netDn
    /\ dnNext = _TETrace[1].dnNext
    /\ lastact = _TETrace[1].lastact
    /\ dup = _TETrace[1].dup
    /\ tunC = _TETrace[1].tunC
    /\ tunS = _TETrace[1].tunS
    /\ loss = _TETrace[1].loss
    /\ accC = _TETrace[1].accC
----

_next ==
    /\ \E i,j \in DOMAIN _TETrace:
        /\ \/ /\ j = i + 1
              /\ i = TLCGet("level")
        /\ upNext  = _TETrace[i].upNext
        /\ upNext' = _TETrace[j].upNext
        /\ accS  = _TETrace[i].accS
        /\ accS' = _TETrace[j].accS
        /\ netUp  = _TETrace[i].netUp
        /\ netUp' = _TETrace[j].netUp
        /\ netDn  = _TETrace[i].netDn
        /\ netDn' = _TETrace[j].netDn
        /\ dnNext  = _TETrace[i].dnNext
        /\ dnNext' = _TETrace[j].dnNext
        /\ lastact  = _TETrace[i].lastact
        /\ lastact' = _TETrace[j].lastact
        /\ dup  = _TETrace[i].dup
        /\ dup' = _TETrace[j].dup
        /\ tunC  = _TETrace[i].tunC
        /\ tunC' = _TETrace[j].tunC
        /\ tunS  = _TETrace[i].tunS
        /\ tunS' = _TETrace[j].tunS
        /\ loss  = _TETrace[i].loss
        /\ loss' = _TETrace[j].loss
        /\ accC  = _TETrace[i].accC
        /\ accC' = _TETrace[j].accC

\* Uncomment the ASSUME below to write the states of the error trace
\* to the given file in Json format. Note that you can pass any tuple
\* to `JsonSerialize`. For example, a sub-sequence of _TETrace.
    \* ASSUME
    \*     LET J == INSTANCE Json
    \*         IN J!JsonSerialize("MCRawTunnel_TTrace_1790725278.json", _TETrace)

=============================================================================

 Note that you can extract this module `MCRawTunnel_TEExpression`
  to a dedicated file to reuse `expression` (the module in the 
  dedicated `MCRawTunnel_TEExpression.tla` file takes precedence 
  over the module `MCRawTunnel_TEExpression` below).

---- MODULE MCRawTunnel_TEExpression ----
EXTENDS Sequences, TLCExt, Toolbox, Naturals, TLC, MCRawTunnel

expression == 
    [
        \* To hide variables of the `MCRawTunnel` spec from the error trace,
        \* remove the variables below.  The trace will be written in the order
        \* of the fields of this record.
        upNext |-> upNext
        ,accS |-> accS
        ,netUp |-> netUp
        ,netDn |-> netDn
        ,dnNext |-> dnNext
        ,lastact |-> lastact
        ,dup |-> dup
        ,tunC |-> tunC
        ,tunS |-> tunS
        ,loss |-> loss
        ,accC |-> accC
        
        \* Put additional constant-, state-, and action-level expressions here:
        \* ,_stateNumber |-> _TEPosition
        \* ,_upNextUnchanged |-> upNext = upNext'
        
        \* Format the `upNext` variable as Json value.
        \* ,_upNextJson |->
        \*     LET J == INSTANCE Json
        \*     IN J!ToJson(upNext)
        
        \* Lastly, you may build expressions over arbitrary sets of states by
        \* leveraging the _TETrace operator.  For example, this is how to
        \* count the number of times a spec variable changed up to the current
        \* state in the trace.
        \* ,_upNextModCount |->
        \*     LET F[s \in DOMAIN _TETrace] ==
        \*         IF s = 1 THEN 0
        \*         ELSE IF _TETrace[s].upNext # _TETrace[s-1].upNext
        \*             THEN 1 + F[s-1] ELSE F[s-1]
        \*     IN F[_TEPosition - 1]
    ]

=============================================================================



Parsing and semantic processing can take forever if the trace below is long.
 In this case, it is advised to uncomment the module below to deserialize the
 trace from a generated binary file.

\*
\*---- MODULE MCRawTunnel_TETrace ----
\*EXTENDS IOUtils, TLC, MCRawTunnel
\*
\*trace == IODeserialize("MCRawTunnel_TTrace_1790725278.bin", TRUE)
\*
\*=============================================================================
\*

---- MODULE MCRawTunnel_TETrace ----
EXTENDS TLC, MCRawTunnel

trace == 
    <<
    ([tunC |-> <<>>,tunS |-> <<>>,loss |-> 0,netUp |-> {},upNext |-> 1,netDn |-> {},dnNext |-> 1,lastact |-> "init",dup |-> 0,accS |-> <<>>,accC |-> <<>>]),
    ([tunC |-> <<>>,tunS |-> <<>>,loss |-> 0,netUp |-> {[p |-> 1001, ser |-> 0, kind |-> "data", len |-> 10]},upNext |-> 2,netDn |-> {},dnNext |-> 1,lastact |-> "CliTun",dup |-> 0,accS |-> <<1001>>,accC |-> <<>>]),
    ([tunC |-> <<>>,tunS |-> <<1001>>,loss |-> 0,netUp |-> {[p |-> 1001, ser |-> 0, kind |-> "data", len |-> 10]},upNext |-> 2,netDn |-> {},dnNext |-> 1,lastact |-> "SrvRecv",dup |-> 1,accS |-> <<1001>>,accC |-> <<>>]),
    ([tunC |-> <<>>,tunS |-> <<1001, 1001>>,loss |-> 0,netUp |-> {[p |-> 1001, ser |-> 0, kind |-> "data", len |-> 10]},upNext |-> 2,netDn |-> {},dnNext |-> 1,lastact |-> "SrvRecv",dup |-> 2,accS |-> <<1001>>,accC |-> <<>>]),
    ([tunC |-> <<>>,tunS |-> <<1001, 1001, 1001>>,loss |-> 0,netUp |-> {},upNext |-> 2,netDn |-> {},dnNext |-> 1,lastact |-> "SrvRecv",dup |-> 2,accS |-> <<1001>>,accC |-> <<>>])
    >>
----


=============================================================================

---- CONFIG MCRawTunnel_TTrace_1790725278 ----
CONSTANTS
    UpLens <- L3
    DnLens <- L2
    RAWMAX = 4092
    MaxLoss = 2
    MaxDup = 2

INVARIANT
    _inv

CHECK_DEADLOCK
    \* CHECK_DEADLOCK off because of PROPERTY or INVARIANT above.
    FALSE

INIT
    _init

NEXT
    _next

CONSTANT
    _TETrace <- _trace

ALIAS
    _expression
=============================================================================
\* Generated on Tue Sep 29 23:41:19 UTC 2026