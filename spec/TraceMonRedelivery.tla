-------------------------- MODULE TraceMonRedelivery --------------------------
EXTENDS MonRedelivery, TraceBase
VARIABLE l
tvars == <<hist, red, l>>
TInit == MRInit /\ l = 1
Ev == TraceLog[l]
IsEvent(e) == l <= TraceLen /\ Ev.e = e /\ l' = l + 1
TNew == IsEvent("NewSession") /\ NewSession(Ev.u)
TAns == IsEvent("AnsFirst") /\ AnsFirst(Ev.u, Ev.nm, Ev.lk, Ev.kind, Ev.pl)
TRedB == IsEvent("RedBegin") /\ RedBegin(Ev.u, Ev.nm, Ev.lk, Ev.kind, Ev.pending, Ev.pendingx)
TRedE == IsEvent("Redeliver") /\ RedEnd(Ev.u, Ev.nm, Ev.lk, Ev.kind, Ev.pos0, Ev.pos1, Ev.answered, Ev.pl)
TReset == IsEvent("Reset") /\ MRReset
TNext == TNew \/ TAns \/ TRedB \/ TRedE \/ TReset
TraceSpec == TInit /\ [][TNext]_tvars
TraceAccepted ==
    LET d == TLCGet("stats").diameter IN
    /\ PrintT(<<"TRACE_REACHED", d - 1, TraceLen>>)
    /\ d - 1 = TraceLen
=============================================================================
