--------------------------- MODULE TraceRawTunnel ---------------------------
(* Layer A binding of the raw-mode data plane: every iteration of the real      *)
(* server loop and of the real client loop in a raw-mode session must be what   *)
(* RawTunnel.tla's handler functions produce for the same inputs (frames        *)
(* emitted: kind, which packet, how many bytes of its image; packets written to *)
(* the tun device), and every frame a program reads must be one its peer        *)
(* emitted earlier (the network only loses and repeats).  Drift only.           *)
EXTENDS RawTunnel, TraceBase

Lens == ndJsonDeserialize(IOEnv.TT_LENS)[1]
TrUpLens == Lens.up
TrDnLens == Lens.dn

VARIABLE l
tvars == <<vars, l>>
Ev == TraceLog[l]
IsEvent(e) == l <= TraceLen /\ Ev.e = e /\ l' = l + 1

Pk(side, i) == IF i = 0 THEN 0 ELSE IF side = "up" THEN UpPkt(i) ELSE DnPkt(i)
Frame(h, side) == [kind |-> h.kind, p |-> Pk(side, h.p), len |-> h.len, ser |-> 0]
Idx(p) == IF p = 0 THEN 0 ELSE IF p < 2000 THEN p - 1000 ELSE p - 2000
Shown(fs) == [i \in 1..Len(fs) |-> [kind |-> fs[i].kind, p |-> Idx(fs[i].p), len |-> fs[i].len]]
Strip(hs) == [i \in 1..Len(hs) |-> [kind |-> hs[i].kind, p |-> hs[i].p, len |-> hs[i].len]]

\* result of running the logged handlers of one iteration in order
CliRun[i \in 0..Len(Ev.hs)] ==
    IF i = 0 THEN [out |-> <<>>, tunw |-> <<>>, ok |-> TRUE]
    ELSE LET h == Ev.hs[i]
             prev == CliRun[i - 1]
             r == CASE h.k = "Tun" -> CliOnTun(Pk("up", h.p), 0)
                    [] h.k = "Timeout" -> CliOnTimeout(0)
                    [] h.k = "Frame" -> CliOnFrame(Frame(h, "dn"))
                    [] OTHER -> [out |-> <<>>, tunw |-> <<>>]
         IN [out |-> prev.out \o r.out, tunw |-> prev.tunw \o r.tunw,
             ok |-> prev.ok /\ (h.k = "Frame" => Frame(h, "dn") \in netDn)]
SrvRun[i \in 0..Len(Ev.hs)] ==
    IF i = 0 THEN [out |-> <<>>, tunw |-> <<>>, ok |-> TRUE]
    ELSE LET h == Ev.hs[i]
             prev == SrvRun[i - 1]
             r == CASE h.k = "Tun" -> SrvOnTun(Pk("dn", h.p), 0)
                    [] h.k = "Frame" -> SrvOnFrame(Frame(h, "up"), 0)
                    [] OTHER -> [out |-> <<>>, tunw |-> <<>>]
         IN [out |-> prev.out \o r.out, tunw |-> prev.tunw \o r.tunw,
             ok |-> prev.ok /\ (h.k = "Frame" => Frame(h, "up") \in netUp)]

\* (an iteration in which select() returned with data may send the keep-alive ping first)
TCli == /\ IsEvent("Cli")
        /\ LET r == CliRun[Len(Ev.hs)] IN
           /\ r.ok
           /\ \E ka \in BOOLEAN :
                 /\ ka => (Len(Ev.hs) > 0 /\ Ev.hs[1].k # "Timeout")
                 /\ Shown(KeepAlive(ka, 0) \o r.out) = Strip(Ev.out)
                 /\ netUp' = netUp \cup ToSet(KeepAlive(ka, 0) \o r.out)
           /\ [i \in 1..Len(r.tunw) |-> Idx(r.tunw[i])] = Ev.tunw
        /\ UNCHANGED <<netDn, upNext, dnNext, tunS, tunC, accS, accC, loss, dup, lastact>>
TSrv == /\ IsEvent("Srv")
        /\ LET r == SrvRun[Len(Ev.hs)] IN
           /\ r.ok
           /\ Shown(r.out) = Strip(Ev.out)
           /\ [i \in 1..Len(r.tunw) |-> Idx(r.tunw[i])] = Ev.tunw
           /\ netDn' = netDn \cup ToSet(r.out)
        /\ UNCHANGED <<netUp, upNext, dnNext, tunS, tunC, accS, accC, loss, dup, lastact>>
TReset == IsEvent("Reset") /\ netUp' = {} /\ netDn' = {}
          /\ UNCHANGED <<upNext, dnNext, tunS, tunC, accS, accC, loss, dup, lastact>>

TInit == Init /\ l = 1
TNext == TCli \/ TSrv \/ TReset
TraceSpec == TInit /\ [][TNext]_tvars
TraceAccepted ==
    LET d == TLCGet("stats").diameter IN
    /\ PrintT(<<"TRACE_REACHED", d - 1, TraceLen>>)
    /\ d - 1 = TraceLen
=============================================================================
