SPECIFICATION Spec
CONSTANTS
  PatternHasPlus = TRUE
  MAXF = 12
INVARIANTS
  SoundType
  SoundUp
  SoundDownAuto
  SoundFrag
  Complete
CHECK_DEADLOCK FALSE
