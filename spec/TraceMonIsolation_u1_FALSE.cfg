SPECIFICATION TraceSpec
CONSTANTS
  Users = {0}
  CheckIp = FALSE
  EXP = 60
POSTCONDITION TraceAccepted
CHECK_DEADLOCK FALSE
