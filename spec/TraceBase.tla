------------------------------ MODULE TraceBase ------------------------------
(* Shared plumbing for trace validation: the NDJSON trace named by the        *)
(* environment variable TRACE, one record per line, field "e" = event name.   *)
EXTENDS Naturals, Sequences, TLC, Json, IOUtils

TraceLog == ndJsonDeserialize(IOEnv.TRACE)
TraceLen == Len(TraceLog)
=============================================================================
