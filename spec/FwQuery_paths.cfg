SPECIFICATION MSpec
CONSTANTS
  RING = 16
  Srcs = {1, 2, 3}
  Ids = {0, 7, 9}
  MaxHist = 100
  HLEN = 4
INVARIANT Emit
CHECK_DEADLOCK FALSE
