--------------------------- MODULE TraceMonProgress ---------------------------
EXTENDS MonProgress, TraceBase
VARIABLE l
tvars == <<mode, due, offered, l>>
TInit == MPInit /\ l = 1
Ev == TraceLog[l]
IsEvent(e) == l <= TraceLen /\ Ev.e = e /\ l' = l + 1
TMode == IsEvent("Mode") /\ Mode(Ev.m)
TAccept == IsEvent("Accept") /\ Accept(Ev.to, Ev.p, Ev.t, Ev.must)
TOffer == IsEvent("Offer") /\ Offer(Ev.side, Ev.p, Ev.t)
TTake == IsEvent("Take") /\ Take(Ev.side, Ev.p, Ev.t)
TWrite == IsEvent("Write") /\ Write(Ev.side, Ev.p, Ev.t)
TEnd == IsEvent("End") /\ End(Ev.t)
TReset == IsEvent("Reset") /\ MPReset
\* event "Exit" (a program terminated) has no enabled action
TNext == TMode \/ TAccept \/ TOffer \/ TTake \/ TWrite \/ TEnd \/ TReset
TraceSpec == TInit /\ [][TNext]_tvars
TraceAccepted ==
    LET d == TLCGet("stats").diameter IN
    /\ PrintT(<<"TRACE_REACHED", d - 1, TraceLen>>)
    /\ d - 1 = TraceLen
=============================================================================
