------------------------------ MODULE MonResidue ------------------------------
(* Property monitor for C12 (self-composition).  The same execution - same      *)
(* scenario, schedule and seed - is run several times with different contents   *)
(* of the receive buffer beyond each datagram's length (zeros / the tail of the *)
(* previously received, longer datagram / 0xA5); the runs are zipped.  One      *)
(* event per received test datagram:                                            *)
(*   Pair(equal)  equal = every output of that step (datagrams emitted byte for *)
(*                byte with their destinations, tun writes, digest of the whole *)
(*                users[] table / the client's subsequent queries, exit) is     *)
(*                identical in all runs                                         *)
(* The monitor says nothing about WHAT the reaction to a truncated datagram is. *)
EXTENDS Naturals
VARIABLE n
MRsInit == n = 0
Pair(equal) == equal /\ n' = n + 1
MRsReset == n' = 0
=============================================================================
