---- MODULE Negotiation_TTrace_1790658535 ----
EXTENDS Negotiation, Sequences, TLCExt, Toolbox, Naturals, TLC

_expression ==
    LET Negotiation_TEExpression == INSTANCE Negotiation_TEExpression
    IN Negotiation_TEExpression!expression
----

_trace ==
    LET Negotiation_TETrace == INSTANCE Negotiation_TETrace
    IN Negotiation_TETrace!trace
----

_inv ==
    ~(
        TLCGet("level") = Len(_TETrace)
        /\
        downenc = ("S")
        /\
        forcedT = ("TXT")
        /\
        frag = (2)
        /\
        pc = ("done")
        /\
        qtype = ("TXT")
        /\
        relay = ([qcase |-> "keep", q8 |-> "clean", qpunct |-> "keep", acase |-> "keep", a8 |-> "clean", apunct |-> "plus", first |-> 1, limit |-> 4, edns |-> FALSE])
        /\
        upenc = ("b128")
        /\
        ok = (TRUE)
        /\
        forcedO = ("S")
    )
----

_init ==
    /\ frag = _TETrace[1].frag
    /\ ok = _TETrace[1].ok
    /\ forcedO = _TETrace[1].forcedO
    /\ downenc = _TETrace[1].downenc
    /\ forcedT = _TETrace[1].forcedT
    /\ relay = _TETrace[1].relay
    /\ upenc = _TETrace[1].upenc
    /\ pc = _TETrace[1].pc
    /\ qtype = _TETrace[1].qtype
----

_next ==
    /\ \E i,j \in DOMAIN _TETrace:
        /\ \/ /\ j = i + 1
              /\ i = TLCGet("level")
        /\ frag  = _TETrace[i].frag
        /\ frag' = _TETrace[j].frag
        /\ ok  = _TETrace[i].ok
        /\ ok' = _TETrace[j].ok
        /\ forcedO  = _TETrace[i].forcedO
        /\ forcedO' = _TETrace[j].forcedO
        /\ downenc  = _TETrace[i].downenc
        /\ downenc' = _TETrace[j].downenc
        /\ forcedT  = _TETrace[i].forcedT
        /\ forcedT' = _TETrace[j].forcedT
        /\ relay  = _TETrace[i].relay
        /\ relay' = _TETrace[j].relay
        /\ upenc  = _TETrace[i].upenc
        /\ upenc' = _TETrace[j].upenc
        /\ pc  = _TETrace[i].pc
        /\ pc' = _TETrace[j].pc
        /\ qtype  = _TETrace[i].qtype
        /\ qtype' = _TETrace[j].qtype

\* Uncomment the ASSUME below to write the states of the error trace
\* to the given file in Json format. Note that you can pass any tuple
\* to `JsonSerialize`. For example, a sub-sequence of _TETrace.
    \* ASSUME
    \*     LET J == INSTANCE Json
    \*         IN J!JsonSerialize("Negotiation_TTrace_1790658535.json", _TETrace)

=============================================================================

 Note that you can extract this module `Negotiation_TEExpression`
  to a dedicated file to reuse `expression` (the module in the 
  dedicated `Negotiation_TEExpression.tla` file takes precedence 
  over the module `Negotiation_TEExpression` below).

---- MODULE Negotiation_TEExpression ----
EXTENDS Negotiation, Sequences, TLCExt, Toolbox, Naturals, TLC

expression == 
    [
        \* To hide variables of the `Negotiation` spec from the error trace,
        \* remove the variables below.  The trace will be written in the order
        \* of the fields of this record.
        frag |-> frag
        ,ok |-> ok
        ,forcedO |-> forcedO
        ,downenc |-> downenc
        ,forcedT |-> forcedT
        ,relay |-> relay
        ,upenc |-> upenc
        ,pc |-> pc
        ,qtype |-> qtype
        
        \* Put additional constant-, state-, and action-level expressions here:
        \* ,_stateNumber |-> _TEPosition
        \* ,_fragUnchanged |-> frag = frag'
        
        \* Format the `frag` variable as Json value.
        \* ,_fragJson |->
        \*     LET J == INSTANCE Json
        \*     IN J!ToJson(frag)
        
        \* Lastly, you may build expressions over arbitrary sets of states by
        \* leveraging the _TETrace operator.  For example, this is how to
        \* count the number of times a spec variable changed up to the current
        \* state in the trace.
        \* ,_fragModCount |->
        \*     LET F[s \in DOMAIN _TETrace] ==
        \*         IF s = 1 THEN 0
        \*         ELSE IF _TETrace[s].frag # _TETrace[s-1].frag
        \*             THEN 1 + F[s-1] ELSE F[s-1]
        \*     IN F[_TEPosition - 1]
    ]

=============================================================================



Parsing and semantic processing can take forever if the trace below is long.
 In this case, it is advised to uncomment the module below to deserialize the
 trace from a generated binary file.

\*
\*---- MODULE Negotiation_TETrace ----
\*EXTENDS Negotiation, IOUtils, TLC
\*
\*trace == IODeserialize("Negotiation_TTrace_1790658535.bin", TRUE)
\*
\*=============================================================================
\*

---- MODULE Negotiation_TETrace ----
EXTENDS Negotiation, TLC

trace == 
    <<
    ([downenc |-> "T",forcedT |-> "TXT",frag |-> 0,pc |-> "qtype",qtype |-> "none",relay |-> [qcase |-> "keep", q8 |-> "clean", qpunct |-> "keep", acase |-> "keep", a8 |-> "clean", apunct |-> "plus", first |-> 1, limit |-> 4, edns |-> FALSE],upenc |-> "b32",ok |-> FALSE,forcedO |-> "S"]),
    ([downenc |-> "T",forcedT |-> "TXT",frag |-> 0,pc |-> "upenc",qtype |-> "TXT",relay |-> [qcase |-> "keep", q8 |-> "clean", qpunct |-> "keep", acase |-> "keep", a8 |-> "clean", apunct |-> "plus", first |-> 1, limit |-> 4, edns |-> FALSE],upenc |-> "b32",ok |-> FALSE,forcedO |-> "S"]),
    ([downenc |-> "T",forcedT |-> "TXT",frag |-> 0,pc |-> "downenc",qtype |-> "TXT",relay |-> [qcase |-> "keep", q8 |-> "clean", qpunct |-> "keep", acase |-> "keep", a8 |-> "clean", apunct |-> "plus", first |-> 1, limit |-> 4, edns |-> FALSE],upenc |-> "b128",ok |-> FALSE,forcedO |-> "S"]),
    ([downenc |-> "S",forcedT |-> "TXT",frag |-> 0,pc |-> "frag",qtype |-> "TXT",relay |-> [qcase |-> "keep", q8 |-> "clean", qpunct |-> "keep", acase |-> "keep", a8 |-> "clean", apunct |-> "plus", first |-> 1, limit |-> 4, edns |-> FALSE],upenc |-> "b128",ok |-> FALSE,forcedO |-> "S"]),
    ([downenc |-> "S",forcedT |-> "TXT",frag |-> 2,pc |-> "done",qtype |-> "TXT",relay |-> [qcase |-> "keep", q8 |-> "clean", qpunct |-> "keep", acase |-> "keep", a8 |-> "clean", apunct |-> "plus", first |-> 1, limit |-> 4, edns |-> FALSE],upenc |-> "b128",ok |-> TRUE,forcedO |-> "S"])
    >>
----


=============================================================================

---- CONFIG Negotiation_TTrace_1790658535 ----
CONSTANTS
    PatternHasPlus = FALSE
    MAXF = 12

INVARIANT
    _inv

CHECK_DEADLOCK
    \* CHECK_DEADLOCK off because of PROPERTY or INVARIANT above.
    FALSE

INIT
    _init

NEXT
    _next

CONSTANT
    _TETrace <- _trace

ALIAS
    _expression
=============================================================================
\* Generated on Tue Sep 29 05:09:35 UTC 2026