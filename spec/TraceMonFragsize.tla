--------------------------- MODULE TraceMonFragsize ---------------------------
EXTENDS MonFragsize, TraceBase

VARIABLE l
tvars == <<fs, cur, l>>
TInit == MFInit /\ l = 1
Ev == TraceLog[l]
IsEvent(e) == l <= TraceLen /\ Ev.e = e /\ l' = l + 1

TNew == IsEvent("NewSession") /\ NewSession(Ev.u)
TSet == IsEvent("SetFrag") /\ SetFrag(Ev.u, Ev.f, Ev.ok)
TData == IsEvent("Data") /\ Data(Ev.u, Ev.len, Ev.dseq, Ev.dfrag, Ev.last, Ev.complete)
TDataless == IsEvent("Dataless") /\ Dataless(Ev.u)
TReplay == IsEvent("Replay") /\ Replay
TReset == IsEvent("Reset") /\ MFReset

TNext == TNew \/ TSet \/ TData \/ TDataless \/ TReplay \/ TReset
TraceSpec == TInit /\ [][TNext]_tvars
TraceAccepted ==
    LET d == TLCGet("stats").diameter IN
    /\ PrintT(<<"TRACE_REACHED", d - 1, TraceLen>>)
    /\ d - 1 = TraceLen
=============================================================================
