SPECIFICATION TraceSpec
CONSTANTS
  MaxLen = 0
  ByteSet = {0}
  STRICT = FALSE
POSTCONDITION TraceAccepted
CHECK_DEADLOCK FALSE
