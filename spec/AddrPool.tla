------------------------------ MODULE AddrPool ------------------------------
(* Layer C, property C18: the tunnel address pool, on IPv4 addresses carried as *)
(* four octets (TLC integers are 32-bit signed).                                *)
EXTENDS Naturals, Sequences, FiniteSets

P2(n) == 2 ^ n
\* number of network bits of mask m that fall into octet k (1..4)
NetBits(m, k) == LET lo == 8 * (k - 1) IN IF m <= lo THEN 0 ELSE IF m >= lo + 8 THEN 8 ELSE m - lo
NetPart(a, m, k) == a[k] \div P2(8 - NetBits(m, k))
HostPart(a, m, k) == a[k] % P2(8 - NetBits(m, k))
HostMax(m, k) == P2(8 - NetBits(m, k)) - 1
InSubnet(a, s, m) == \A k \in 1..4 : NetPart(a, m, k) = NetPart(s, m, k)
IsNetwork(a, m) == \A k \in 1..4 : HostPart(a, m, k) = 0
IsBroadcast(a, m) == \A k \in 1..4 : HostPart(a, m, k) = HostMax(m, k)
IsAddr(a) == Len(a) = 4 /\ \A k \in 1..4 : a[k] \in 0..255
Min(x, y) == IF x < y THEN x ELSE y

\* e = [ip, mask, count, addrs]: init_users(ip, mask) created `count` slots with these tunnel addresses
PoolOK(e) ==
    /\ e.mask >= 8 /\ e.mask <= 30
    /\ e.count = Min(16, P2(32 - e.mask) - 3)
    /\ Len(e.addrs) = e.count
    /\ \A i \in 1..Len(e.addrs) :
          LET a == e.addrs[i] IN
          /\ IsAddr(a) /\ InSubnet(a, e.ip, e.mask)
          /\ a # e.ip /\ ~IsNetwork(a, e.mask) /\ ~IsBroadcast(a, e.mask)
          /\ \A j \in 1..Len(e.addrs) : j # i => e.addrs[j] # a

\* e = [slots, ip, ret]: find_user_by_ip(ip) with slots = <<[active, auth, disabled, age, ip]>>; ret = 99 for "none"
Owners(e) == {i \in 1..Len(e.slots) : /\ e.slots[i].active /\ e.slots[i].auth /\ ~e.slots[i].disabled
                                       /\ e.slots[i].age < 60 /\ e.slots[i].ip = e.ip}
LookupOK(e) == IF Owners(e) = {} THEN e.ret = 99 ELSE e.ret + 1 \in Owners(e)
\* e = [srv, mask, slot, told, toldsrv]: what the login reply of a real session told the client: its own tunnel address is
\* the one of its slot (slot = the address users[u].tun_ip of that session), a host address of the server's subnet other
\* than the server's; the server address it names is the server's (addresses parsed strictly from the reply text; an
\* unparsable field arrives as the empty sequence)
ToldOK(e) == /\ IsAddr(e.told) /\ e.told = e.slot
             /\ InSubnet(e.told, e.srv, e.mask) /\ e.told # e.srv /\ ~IsNetwork(e.told, e.mask) /\ ~IsBroadcast(e.told, e.mask)
             /\ e.toldsrv = e.srv
\* e = [mask, created, told]: the sessions the server can create (version requests acknowledged until it reports "full")
\* after requests that create none (wrong protocol version, malformed version requests), and the distinct addresses the
\* logins of those sessions were told
CapacityOK(e) == /\ e.created = Min(16, P2(32 - e.mask) - 3)
                 /\ e.told = e.created
\* the server refuses netmasks outside 8..30
RangeOK(e) == e.started <=> (e.mask >= 8 /\ e.mask <= 30)

VARIABLE n
AInit == n = 0
Spec == AInit /\ [][FALSE]_n
ASSUME InSubnet(<<10, 0, 3, 7>>, <<10, 0, 0, 1>>, 22) /\ ~InSubnet(<<10, 0, 4, 7>>, <<10, 0, 0, 1>>, 22)
ASSUME IsBroadcast(<<10, 0, 3, 255>>, 22) /\ IsNetwork(<<10, 0, 0, 0>>, 22) /\ ~IsNetwork(<<10, 0, 1, 0>>, 22)
=============================================================================
