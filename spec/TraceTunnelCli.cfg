SPECIFICATION TraceSpec
CONSTANTS
  SEQMOD = 8
  FRAGMOD = 16
  RECENT = 4
  UpLens <- TrUpLens
  DnLens <- TrDnLens
  UpPkt <- TrUpPkt
  DnPkt <- TrDnPkt
  PLen <- TrPLen
  CAPUP <- TrCap
  FRAGSIZE = 1
  CACHE = 4
  QMEMD = 15
  QMEMP = 30
  OUTQ = 4
  SRVRESEND = 5
  CLIRESEND = 3
  LAZY <- TrLazy
  MaxLoss = 0
  MaxDup = 0
  MaxQ = 0
  MaxTO = 0
  PROMPT = FALSE
POSTCONDITION TraceAccepted
CHECK_DEADLOCK FALSE
