SPECIFICATION Spec
CONSTANTS
  RING = 3
  Srcs = {1, 2, 3}
  Ids = {0, 7, 9}
  MaxHist = 7
CONSTRAINT Bound
INVARIANTS
  RoutedToAsker
  SameId
  RingIsRecent
CHECK_DEADLOCK FALSE
