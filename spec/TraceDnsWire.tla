----------------------------- MODULE TraceDnsWire -----------------------------
EXTENDS DnsWire, TraceBase
VARIABLE l
tvars == <<n, l>>
TInit == WInit /\ l = 1
Ev == TraceLog[l]
IsEvent(e) == l <= TraceLen /\ Ev.e = e /\ l' = l + 1 /\ UNCHANGED n
TMsg == IsEvent("Msg") /\ WellFormed(Ev.b)
TAns == IsEvent("Ans") /\ WellFormed(Ev.a) /\ Echoes(Ev.a, Ev.q)
TNS == IsEvent("AuxNS") /\ WellFormed(Ev.a) /\ Echoes(Ev.a, Ev.q) /\ NSOK(Ev.a, Ev.q, Ev.ndom)
TA == IsEvent("AuxA") /\ WellFormed(Ev.a) /\ Echoes(Ev.a, Ev.q) /\ AOK(Ev.a, Ev.q)
TReset == IsEvent("Reset")
TNext == TMsg \/ TAns \/ TNS \/ TA \/ TReset
TraceSpec == TInit /\ [][TNext]_tvars
TraceAccepted ==
    LET d == TLCGet("stats").diameter IN
    /\ PrintT(<<"TRACE_REACHED", d - 1, TraceLen>>)
    /\ d - 1 = TraceLen
=============================================================================
