------------------------------ MODULE TraceLogin ------------------------------
EXTENDS Login, TraceBase
VARIABLE l
tvars == <<n, l>>
TInit == LInit /\ l = 1
Ev == TraceLog[l]
IsEvent(e) == l <= TraceLen /\ Ev.e = e /\ l' = l + 1 /\ UNCHANGED n
TLogin == IsEvent("Login") /\ LoginOK(Ev)
TWire == IsEvent("Wire") /\ WireOK(Ev)
TDiff == IsEvent("Diff") /\ DiffOK(Ev)
TReset == IsEvent("Reset")
TNext == TLogin \/ TWire \/ TDiff \/ TReset
TraceSpec == TInit /\ [][TNext]_tvars
TraceAccepted ==
    LET d == TLCGet("stats").diameter IN
    /\ PrintT(<<"TRACE_REACHED", d - 1, TraceLen>>)
    /\ d - 1 = TraceLen
=============================================================================
