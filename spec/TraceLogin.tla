------------------------------ MODULE TraceLogin ------------------------------
EXTENDS Login, TraceBase
VARIABLE l
tvars == <<n, l>>
TInit == LInit /\ l = 1
Ev == TraceLog[l]
IsEvent(e) == l <= TraceLen /\ Ev.e = e /\ l' = l + 1 /\ UNCHANGED n
TLogin == IsEvent("Login") /\ LoginOK(Ev)
TWire == IsEvent("Wire") /\ WireOK(Ev)
TDiff == IsEvent("Diff") /\ DiffOK(Ev)
\* a raw login carrying the right response (judged by its own Wire event) must be answered by the server
TRawAnswered == IsEvent("RawAnswered") /\ Ev.answered
TReset == IsEvent("Reset")
TNext == TLogin \/ TWire \/ TDiff \/ TRawAnswered \/ TReset
TraceSpec == TInit /\ [][TNext]_tvars
TraceAccepted ==
    LET d == TLCGet("stats").diameter IN
    /\ PrintT(<<"TRACE_REACHED", d - 1, TraceLen>>)
    /\ d - 1 = TraceLen
=============================================================================
