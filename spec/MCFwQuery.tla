----------------------------- MODULE MCFwQuery -----------------------------
EXTENDS FwQuery, Json, TLC
CONSTANT HLEN
VARIABLES msgs, done
MNext == /\ Len(msgs) < HLEN
         /\ Next
         /\ msgs' = Append(msgs, IF act'.a = "Forward" THEN [a |-> "F", src |-> act'.src, id |-> act'.id]
                                 ELSE [a |-> "R", id |-> act'.id])
         /\ UNCHANGED done
MSpec == Init /\ msgs = <<>> /\ done = FALSE /\ [][MNext]_<<vars, msgs, done>>
Emit == Len(msgs) # HLEN \/ PrintT(<<"HIST", ToJson(msgs)>>)
\* simulation variant: emit once at the end of each behaviour
SNext == \/ /\ Len(msgs) < HLEN /\ ~done /\ Next /\ done' = FALSE
            /\ msgs' = Append(msgs, IF act'.a = "Forward" THEN [a |-> "F", src |-> act'.src, id |-> act'.id]
                                    ELSE [a |-> "R", id |-> act'.id])
         \/ /\ Len(msgs) = HLEN /\ ~done /\ done' = TRUE /\ UNCHANGED <<vars, msgs>>
SSpec == Init /\ msgs = <<>> /\ done = FALSE /\ [][SNext]_<<vars, msgs, done>>
EmitS == ~done \/ PrintT(<<"HIST", ToJson(msgs)>>)
=============================================================================
