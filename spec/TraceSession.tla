---------------------------- MODULE TraceSession ----------------------------
(* Layer A binding: a recorded execution of the real iodined (scripted peers,   *)
(* pylib/script.py) is a behaviour of Session.tla.  Every Step line carries the *)
(* request (command, source, userid, claim, argument), the class of the reply,  *)
(* the observable effects and the projection of the complete users[] table      *)
(* after the step; the spec action for that request must produce exactly these. *)
EXTENDS Session, TraceBase

VARIABLE l
tvars == <<vars, l>>
TInit == Init /\ l = 1
Ev == TraceLog[l]
IsEvent(e) == l <= TraceLen /\ Ev.e = e /\ l' = l + 1

Observable == {"NewSession", "TunWrite", "Down", "Disclose", "SwitchRaw"}
SeqSet(s) == {s[i] : i \in 1..Len(s)}

Act(m) ==
    CASE m.c = "V" -> Version(m.src)
      [] m.c = "L" -> Login(m.src, m.uid, m.claim)
      [] m.c = "I" -> IpReq(m.src, m.uid)
      [] m.c = "S" -> SwitchCodec(m.src, m.uid, m.arg)
      [] m.c = "O" -> Options(m.src, m.uid, m.arg)
      [] m.c = "N" -> SetFrag(m.src, m.uid, m.arg)
      [] m.c = "R" -> FragProbe(m.src, m.uid, m.arg)
      [] m.c = "P" -> Ping(m.src, m.uid)
      [] m.c = "D" -> Data(m.src, m.uid, m.arg)
      [] m.c = "RL" -> RawLogin(m.src, m.uid, m.claim)
      [] m.c = "RD" -> RawData(m.src, m.uid, m.arg)
      [] m.c = "RP" -> RawPing(m.src, m.uid)
      [] m.c = "T" -> TunArrival(m.arg)
      [] m.c = "X" -> Opaque(m.src)

SlotMatches(u, r) ==
    /\ active'[u] = r.active
    /\ r.active =>
        /\ authed'[u] = r.authed /\ araw'[u] = r.araw /\ locked'[u] = r.locked
        /\ seed'[u] = r.seed /\ age'[u] = r.age /\ host'[u] = r.host /\ conn'[u] = r.conn
        /\ lazy'[u] = r.lazy /\ frag'[u] = r.frag /\ enc'[u] = r.enc /\ denc'[u] = r.denc
        /\ (r.held = 2 \/ held'[u] = (r.held = 1))
        /\ qfrom'[u] = r.qfrom
        /\ Len(out'[u]) = r.outn

\* the code's verdict on "read the tun device?" after the step (tun descriptor in the read set of the server's next
\* select()) is the specification's TunPolled on the new state - unless a session is within 3 s of the expiry boundary
\* (the server looked at its clock a few milliseconds later than the step was stamped)
NearEdge == \E u \in Slots : active'[u] /\ age'[u] >= EXP - 3
PollsOK == NearEdge \/ (Ev.polls = TunPolled')

TStep == /\ IsEvent("Step")
         /\ Act(Ev)
         /\ (Ev.c # "X" => reply' = Ev.reply)
         /\ {e \in eff' : e.k \in Observable} = SeqSet(Ev.eff)
         /\ Len(Ev.slots) = USERS
         /\ \A u \in Slots : SlotMatches(u, Ev.slots[u + 1])
         /\ PollsOK
TTick == IsEvent("Tick") /\ Tick(Ev.dt)
TReset == /\ IsEvent("Reset")
          /\ active' = [u \in Slots |-> FALSE] /\ authed' = [u \in Slots |-> FALSE]
          /\ araw' = [u \in Slots |-> FALSE] /\ locked' = [u \in Slots |-> FALSE]
          /\ seed' = [u \in Slots |-> 0] /\ age' = [u \in Slots |-> 0]
          /\ host' = [u \in Slots |-> NoSrc] /\ conn' = [u \in Slots |-> "dns"]
          /\ lazy' = [u \in Slots |-> FALSE] /\ frag' = [u \in Slots |-> 100]
          /\ enc' = [u \in Slots |-> "b32"] /\ denc' = [u \in Slots |-> "T"]
          /\ held' = [u \in Slots |-> FALSE] /\ qfrom' = [u \in Slots |-> NoSrc]
          /\ out' = [u \in Slots |-> <<>>]
          /\ nseed' = 0 /\ answered' = [u \in Slots |-> FALSE]
          /\ eff' = {} /\ reply' = "none" /\ msg' = [c |-> "init"]

TNext == TStep \/ TTick \/ TReset
TraceSpec == TInit /\ [][TNext]_tvars
TraceAccepted ==
    LET d == TLCGet("stats").diameter IN
    /\ PrintT(<<"TRACE_REACHED", d - 1, TraceLen>>)
    /\ d - 1 = TraceLen
=============================================================================
