SPECIFICATION TraceSpec
CONSTANTS
  Users = {0}
  CheckIp = TRUE
  EXP = 60
POSTCONDITION TraceAccepted
CHECK_DEADLOCK FALSE
