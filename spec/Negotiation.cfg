SPECIFICATION Spec
CONSTANTS
  PatternHasPlus = FALSE
  MAXF = 12
INVARIANTS
  SoundType
  SoundUp
  SoundDownAuto
  SoundFrag
  Complete
CHECK_DEADLOCK FALSE
