SPECIFICATION TraceSpec
CONSTANTS
  Alphabet = {49}
  MaxLen = 0
POSTCONDITION TraceAccepted
CHECK_DEADLOCK FALSE
