------------------------------- MODULE DnsWire -------------------------------
(* Layer C, property C10: a strict RFC 1035 well-formedness predicate on a DNS  *)
(* message given as a sequence of bytes, the "answer echoes its question"       *)
(* relation, and the auxiliary NS / A answers.  Offsets are 0-based; B(m, o) is *)
(* the byte at offset o.                                                        *)
EXTENDS Naturals, Sequences, FiniteSets

B(m, o) == m[o + 1]
U16(m, o) == B(m, o) * 256 + B(m, o + 1)
Fail == [ok |-> FALSE, next |-> 0, cur |-> {}, wlen |-> 0]

\* wire length of the name at offset t with pointers expanded (t is a label start of a completed name)
RECURSIVE ExpLen(_, _)
ExpLen(m, t) == LET c == B(m, t) IN
    IF c = 0 THEN 1
    ELSE IF c >= 192 THEN ExpLen(m, (c - 192) * 256 + B(m, t + 1))
    ELSE 1 + c + ExpLen(m, t + 1 + c)

\* labels of the name at offset t with pointers expanded
RECURSIVE Expand(_, _)
Expand(m, t) == LET c == B(m, t) IN
    IF c = 0 THEN <<>>
    ELSE IF c >= 192 THEN Expand(m, (c - 192) * 256 + B(m, t + 1))
    ELSE <<SubSeq(m, t + 2, t + 1 + c)>> \o Expand(m, t + 1 + c)

\* parse one name at offset o.  done = label starts of names completed earlier (the only legal pointer targets:
\* backwards, to a label boundary); cur = label starts of this name so far; acc = its wire length so far
RECURSIVE PName(_, _, _, _, _)
PName(m, o, done, cur, acc) ==
    IF o >= Len(m) THEN Fail
    ELSE LET c == B(m, o) IN
         IF c = 0 THEN [ok |-> acc + 1 <= 255, next |-> o + 1, cur |-> cur, wlen |-> acc + 1]
         ELSE IF c >= 192
              THEN IF o + 1 >= Len(m) THEN Fail
                   ELSE LET t == (c - 192) * 256 + B(m, o + 1) IN
                        IF t < o /\ t \in done
                        THEN [ok |-> acc + ExpLen(m, t) <= 255, next |-> o + 2, cur |-> cur, wlen |-> acc + ExpLen(m, t)]
                        ELSE Fail
         ELSE IF c > 63 \/ o + 1 + c > Len(m) THEN Fail            \* labels are 1..63 bytes and lie inside the message
         ELSE PName(m, o + 1 + c, done, cur \cup {o}, acc + 1 + c)

RECURSIVE TxtTiled(_, _, _)
TxtTiled(m, p, end) == IF p = end THEN TRUE
                       ELSE p + 1 + B(m, p) <= end /\ TxtTiled(m, p + 1 + B(m, p), end)

\* one resource record at offset o; returns [ok, next, done]
PRR(m, o, done) ==
    LET nm == PName(m, o, done, {}, 0) IN
    IF ~nm.ok \/ nm.next + 10 > Len(m) THEN [ok |-> FALSE, next |-> 0, done |-> done]
    ELSE LET h == nm.next
             type == U16(m, h)
             rdlen == U16(m, h + 8)
             rd == h + 10
             end == rd + rdlen
             d1 == done \cup nm.cur
             inner(off) == PName(m, off, d1, {}, 0)
             nameAt(off) == off < end /\ inner(off).ok /\ inner(off).next = end      \* RDLENGTH = actual data size
             ok == /\ end <= Len(m)
                   /\ CASE type = 5 \/ type = 2 -> nameAt(rd)
                        [] type = 15 -> rdlen >= 3 /\ nameAt(rd + 2)
                        [] type = 33 -> rdlen >= 7 /\ nameAt(rd + 6)
                        [] type = 16 -> rdlen >= 1 /\ TxtTiled(m, rd, end)              \* tiled by its strings
                        [] type = 1 -> rdlen = 4
                        [] type = 41 -> nm.next = o + 1                                  \* OPT owner is the root
                        [] OTHER -> TRUE
             d2 == IF ok /\ type \in {5, 2} THEN d1 \cup inner(rd).cur
                   ELSE IF ok /\ type = 15 THEN d1 \cup inner(rd + 2).cur
                   ELSE IF ok /\ type = 33 THEN d1 \cup inner(rd + 6).cur ELSE d1
         IN [ok |-> ok, next |-> end, done |-> d2]

RECURSIVE PQuestions(_, _, _, _)
PQuestions(m, o, k, done) ==
    IF k = 0 THEN [ok |-> TRUE, next |-> o, done |-> done]
    ELSE LET nm == PName(m, o, done, {}, 0) IN
         IF ~nm.ok \/ nm.next + 4 > Len(m) THEN [ok |-> FALSE, next |-> 0, done |-> done]
         ELSE PQuestions(m, nm.next + 4, k - 1, done \cup nm.cur)

RECURSIVE PRecords(_, _, _, _)
PRecords(m, o, k, done) ==
    IF k = 0 THEN [ok |-> TRUE, next |-> o, done |-> done]
    ELSE LET r == PRR(m, o, done) IN
         IF ~r.ok THEN [ok |-> FALSE, next |-> 0, done |-> done]
         ELSE PRecords(m, r.next, k - 1, r.done)

\* section counts match the records present, nothing after the last record
WellFormed(m) ==
    /\ Len(m) >= 12
    /\ LET q == PQuestions(m, 12, U16(m, 4), {}) IN
       /\ q.ok
       /\ LET r == PRecords(m, q.next, U16(m, 6) + U16(m, 8) + U16(m, 10), q.done) IN
          r.ok /\ r.next = Len(m)

QEnd(m) == PName(m, 12, {}, {}, 0).next + 4        \* end of the first question
IsQuery(m) == B(m, 2) < 128
\* the answer carries the id, name and type of the query it answers
Echoes(a, q) == /\ SubSeq(a, 1, 2) = SubSeq(q, 1, 2)
                /\ ~IsQuery(a) /\ U16(a, 4) = 1
                /\ SubSeq(a, 13, QEnd(a)) = SubSeq(q, 13, QEnd(q))

\* first answer record of a (which has exactly one question)
AnsOff(a) == QEnd(a)
AnsType(a) == U16(a, PName(a, AnsOff(a), {}, {}, 0).next)   \* owner may be a pointer: parse without done-check
LastN(s, k) == SubSeq(s, Len(s) - k + 1, Len(s))
NSOK(a, q, ndom) ==     \* NS query under the domain: answered with ns.<domain>
    LET qn == Expand(q, 12)
        owner == PName(a, AnsOff(a), {12} \cup PName(a, 12, {}, {}, 0).cur, {}, 0)
        rd == owner.next + 10
    IN /\ U16(a, 6) >= 1 /\ owner.ok /\ U16(a, owner.next) = 2
       /\ Expand(a, rd) = <<<<110, 115>>>> \o LastN(qn, ndom)
AOK(a, q) ==            \* A query for ns. / www.: one address record
    LET owner == PName(a, AnsOff(a), {12} \cup PName(a, 12, {}, {}, 0).cur, {}, 0)
    IN U16(a, 6) = 1 /\ owner.ok /\ U16(a, owner.next) = 1 /\ U16(a, owner.next + 8) = 4

VARIABLE n
WInit == n = 0
Spec == WInit /\ [][FALSE]_n
\* sanity: a hand-made query and answer
Q1 == <<18, 52, 1, 0, 0, 1, 0, 0, 0, 0, 0, 0, 1, 97, 2, 98, 99, 0, 0, 10, 0, 1>>
A1 == <<18, 52, 132, 0, 0, 1, 0, 1, 0, 0, 0, 0, 1, 97, 2, 98, 99, 0, 0, 10, 0, 1, 192, 12, 0, 10, 0, 1, 0, 0, 0, 0, 0, 2, 7, 8>>
ASSUME WellFormed(Q1) /\ WellFormed(A1) /\ Echoes(A1, Q1)
ASSUME ~WellFormed(Append(A1, 0)) /\ ~WellFormed(SubSeq(A1, 1, Len(A1) - 1))
ASSUME ~WellFormed(<<18, 52, 1, 0, 0, 1, 0, 0, 0, 0, 0, 0, 1, 97, 192, 12, 0, 10, 0, 1>>)      \* pointer loop
=============================================================================
