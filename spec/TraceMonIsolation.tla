-------------------------- MODULE TraceMonIsolation --------------------------
EXTENDS MonIsolation, TraceBase
VARIABLE l
tvars == <<mvars, l>>
TInit == MIsInit /\ l = 1
Ev == TraceLog[l]
IsEvent(e) == l <= TraceLen /\ Ev.e = e /\ l' = l + 1
TNew == IsEvent("NewSession") /\ NewSession(Ev.u, Ev.src, Ev.t)
TFull == IsEvent("Full") /\ Full(Ev.t)
TReq == IsEvent("Req") /\ Req(Ev.u, Ev.src, Ev.dns, Ev.c, Ev.reply, Ev.same, Ev.neff, Ev.t)
TLogin == IsEvent("LoginOk") /\ LoginOk(Ev.u, Ev.addr, Ev.t)
TRebind == IsEvent("Rebind") /\ Rebind(Ev.u, Ev.src, Ev.t, Ev.proof)
TDown == IsEvent("Down") /\ Down(Ev.u, Ev.dst, Ev.to, Ev.t, Ev.fresh)
TReset == IsEvent("Reset") /\ MIsReset
TNext == TNew \/ TFull \/ TReq \/ TLogin \/ TRebind \/ TDown \/ TReset
TraceSpec == TInit /\ [][TNext]_tvars
TraceAccepted ==
    LET d == TLCGet("stats").diameter IN
    /\ PrintT(<<"TRACE_REACHED", d - 1, TraceLen>>)
    /\ d - 1 = TraceLen
=============================================================================
