SPECIFICATION TraceSpec
CONSTANTS
  Users = {0,1,2,3,4}
  CheckIp = TRUE
  EXP = 60
POSTCONDITION TraceAccepted
CHECK_DEADLOCK FALSE
