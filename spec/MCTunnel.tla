------------------------------ MODULE MCTunnel ------------------------------
EXTENDS Tunnel
Len21 == <<2, 1>>
Len2 == <<2>>
Len1 == <<1>>
Len3 == <<3>>
Len22 == <<2, 2>>
Len111 == <<1, 1, 1>>
Len0 == <<>>
Brief ==
    [act |-> lastact, tunS |-> tunS, tunC |-> tunC, accS |-> accS, accC |-> accC,
     cli |-> ToString(<<"out", C.opkt, C.oseq, C.ofrag, C.ooff, C.olen, "rs", C.resent, "in", C.iseq, C.ifrag, C.ibuf, "id", C.idcur, C.ps>>),
     srv |-> ToString(<<"in", S.iseq, S.ifrag, S.ibuf, "out", S.opkt, S.oseq, S.ofrag, S.ooff, S.olen, "rs", S.resent, "outq", S.outq,
               "q", S.q.id, S.q.id2, S.q.nm, "qrs", S.qrs.id, S.qrs.id2, S.qrs.nm>>),
     netQ |-> {ToString(<<m.id, m.kind, "up", m.useq, m.ufrag, m.last, m.units, "ack", m.dseq, m.dfrag>>) : m \in netQ},
     netA |-> {ToString(<<a.id, a.nm, "dn", a.dseq, a.dfrag, a.last, a.units, "ack", a.useq, a.ufrag, a.illegal>>) : a \in netA},
     budgets |-> <<loss, dup, tos>>]
\* reachability probes (expected to be VIOLATED: they show that the states the invariants speak about are reached,
\* i.e. that the invariants do not hold vacuously)
NotBothDelivered == ~(Len(tunS) >= 1 /\ Len(tunC) >= 1)                    \* C01/C02: packets do get through both ways
ProbeNoSeen == lastact # "SrvRecvSeen"                                       \* C16: a recently seen query is re-delivered
ProbeNeverHeldTwo == ~(S.q.id # 0 /\ S.qrs.id # 0)                            \* C14: two queries held at once
ProbeNoSecondFragment == \A a \in netA : ~(Len(a.units) > 0 /\ a.dfrag > 0)   \* C15: multi-fragment downstream packets
ProbeNoDuplicateAnswer == \A a \in netA, b \in netA : (a.nm = b.nm /\ a.id # b.id) => Len(a.units) = 0   \* C14: "answer both"
=============================================================================
