SPECIFICATION TraceSpec
CONSTANTS
  UpLens <- TrUpLens
  DnLens <- TrDnLens
  RAWMAX = 4092
  MaxLoss = 0
  MaxDup = 0
POSTCONDITION TraceAccepted
CHECK_DEADLOCK FALSE
