----------------------------- MODULE MonRedelivery -----------------------------
(* Property monitor for C16.  Observables:                                      *)
(*   NewSession(u)                     a version request was acknowledged        *)
(*   AnsFirst(u, nm, lk, kind, pl)     first-time answer to ping/data query nm   *)
(*                                     (lk = nm lower-cased) with payload pl     *)
(*   Redeliver(u, nm, lk, kind, pending, pos0, pos1, answered, pl)               *)
(*        a query the relay delivered AGAIN (possibly new id / changed case /    *)
(*        other port); pending = a query with this lower-cased name is currently *)
(*        held; pos0/pos1 = the session's stream positions before/after the      *)
(*        server step (upstream seq, frag, reassembled length; downstream seq,   *)
(*        frag, length, offset; queue length); answered/pl = the answer it got   *)
(* Within the windows the property names (last CACHE answered: same payload;     *)
(* last QMEMD data / QMEMP ping answered: suppressed; currently pending) a       *)
(* re-delivery must leave the stream positions unchanged; an identical repeat    *)
(* still in the cache window must be answered with the original payload.         *)
EXTENDS Naturals, Sequences, TLC

CONSTANTS Users, CACHE, QMEMD, QMEMP, KEEP

VARIABLES hist,     \* hist[u]: first-time answers of the session, oldest first (trimmed to KEEP)
          red       \* the re-delivery being processed in the current server step

MRInit == hist = [u \in Users |-> <<>>] /\ red = [on |-> FALSE, incache |-> FALSE, inwin |-> FALSE, orig |-> "", pending |-> FALSE]

LastN(s, n) == IF Len(s) > n THEN SubSeq(s, Len(s) - n + 1, Len(s)) ELSE s
Names(s) == {s[i].nm : i \in 1..Len(s)}
LKeys(s) == {s[i].lk : i \in 1..Len(s)}
OfKind(s, k) == SelectSeq(s, LAMBDA r : r.kind = k)

InCache(u, nm) == nm \in Names(LastN(hist[u], CACHE))
InQmem(u, lk, kind) == lk \in LKeys(LastN(OfKind(hist[u], kind), IF kind = "data" THEN QMEMD ELSE QMEMP))
OrigPl(u, nm) == LET s == hist[u]
                     i == CHOOSE i \in 1..Len(s) : s[i].nm = nm /\ \A j \in 1..Len(s) : s[j].nm = nm => j <= i
                 IN s[i].pl

NoRed == [on |-> FALSE, incache |-> FALSE, inwin |-> FALSE, orig |-> "", pending |-> FALSE]

NewSession(u) == u \in Users /\ hist' = [hist EXCEPT ![u] = <<>>] /\ UNCHANGED red

\* hist lists DISTINCT queries, one entry per first processing as the server's memories do: a header-carrying answer
\* to exactly the same name as an entry still inside the memory window is a repeat of that query (the copy the relay
\* re-sent may even have overtaken the original) and adds no entry.  A case-changed copy that the server did process
\* as a query of its own (it compares held queries by exact name) does get its own entry.
SeenExact(u, nm, kind) == nm \in Names(LastN(OfKind(hist[u], kind), IF kind = "data" THEN QMEMD ELSE QMEMP))
Record(h, u, nm, lk, kind, pl) ==
    IF SeenExact(u, nm, kind) THEN h
    ELSE [h EXCEPT ![u] = LastN(Append(@, [nm |-> nm, lk |-> lk, kind |-> kind, pl |-> pl]), KEEP)]

AnsFirst(u, nm, lk, kind, pl) ==
    /\ u \in Users
    /\ hist' = Record(hist, u, nm, lk, kind, pl)
    /\ UNCHANGED red

\* the re-delivered datagram is read by the server: the windows are evaluated on the history BEFORE this step.
\* pending = a query with this name (letter case ignored) is being held: the re-delivery is inside the property's scope,
\* and the server remembers it as the held query's duplicate and answers both at once - the two share ONE entry of the
\* answer cache, filed under the held query's spelling (since the repair of F12 a case-changed copy of a held query is
\* its duplicate too; a later repeat of the copy's spelling is then not "still in the answer cache": it is suppressed
\* by the query memory).  pendingx = a held query has exactly this spelling (kept for the record)
RedBegin(u, nm, lk, kind, pending, pendingx) ==
    /\ u \in Users
    /\ red' = [on |-> TRUE, incache |-> InCache(u, nm),
               inwin |-> (InCache(u, nm) \/ InQmem(u, lk, kind) \/ pending),
               orig |-> IF InCache(u, nm) THEN OrigPl(u, nm) ELSE "", pending |-> pending]
    /\ UNCHANGED hist

\* end of that server step
RedEnd(u, nm, lk, kind, pos0, pos1, answered, pl) ==
    /\ red.on
    /\ red.inwin => pos0 = pos1
    /\ red.incache => (answered /\ pl = red.orig)
    \* a re-delivery that is neither a cache replay nor a remembered duplicate of a pending query (that one shares
    \* the original's answer and its single cache entry) but gets a real (header-carrying) answer in the same step was
    \* processed as a new query: its answer enters the server's memories like any first-time answer
    /\ hist' = IF ~red.incache /\ ~red.pending /\ answered /\ Len(pl) >= 4
               THEN Record(hist, u, nm, lk, kind, pl)
               ELSE hist
    /\ red' = NoRed

MRReset == hist' = [u \in Users |-> <<>>] /\ red' = NoRed
=============================================================================
