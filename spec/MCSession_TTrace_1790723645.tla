---- MODULE MCSession_TTrace_1790723645 ----
EXTENDS Sequences, TLCExt, Toolbox, Naturals, TLC, MCSession

_expression ==
    LET MCSession_TEExpression == INSTANCE MCSession_TEExpression
    IN MCSession_TEExpression!expression
----

_trace ==
    LET MCSession_TETrace == INSTANCE MCSession_TETrace
    IN MCSession_TETrace!trace
----

_inv ==
    ~(
        TLCGet("level") = Len(_TETrace)
        /\
        msg = ([c |-> "D", uid |-> 0, src |-> 1, arg |-> 0])
        /\
        frag = ((0 :> 100 @@ 1 :> 100))
        /\
        conn = ((0 :> "dns" @@ 1 :> "dns"))
        /\
        answered = ((0 :> TRUE @@ 1 :> FALSE))
        /\
        seed = ((0 :> 1 @@ 1 :> 0))
        /\
        eff = ({[u |-> 0, k |-> "Down", to |-> 1, p |-> [o |-> 0, d |-> 0]], [u |-> 0, k |-> "Forward", p |-> [o |-> 0, d |-> 0], v |-> 0]})
        /\
        held = ((0 :> FALSE @@ 1 :> FALSE))
        /\
        lazy = ((0 :> FALSE @@ 1 :> FALSE))
        /\
        active = ((0 :> TRUE @@ 1 :> FALSE))
        /\
        araw = ((0 :> FALSE @@ 1 :> FALSE))
        /\
        authed = ((0 :> TRUE @@ 1 :> FALSE))
        /\
        out = ((0 :> <<>> @@ 1 :> <<>>))
        /\
        qfrom = ((0 :> 1 @@ 1 :> 0))
        /\
        host = ((0 :> 1 @@ 1 :> 0))
        /\
        denc = ((0 :> "T" @@ 1 :> "T"))
        /\
        enc = ((0 :> "b32" @@ 1 :> "b32"))
        /\
        reply = ("DATA")
        /\
        locked = ((0 :> FALSE @@ 1 :> FALSE))
        /\
        nseed = (1)
        /\
        age = ((0 :> 0 @@ 1 :> 0))
    )
----

_init ==
    /\ frag = _TETrace[1].frag
    /\ active = _TETrace[1].active
    /\ qfrom = _TETrace[1].qfrom
    /\ msg = _TETrace[1].msg
    /\ lazy = _TETrace[1].lazy
    /\ araw = _TETrace[1].araw
    /\ conn = _TETrace[1].conn
    /\ authed = _TETrace[1].authed
    /\ out = _TETrace[1].out
    /\ reply = _TETrace[1].reply
    /\ enc = _TETrace[1].enc
    /\ host = _TETrace[1].host
    /\ answered = _TETrace[1].answered
    /\ held = _TETrace[1].held
    /\ denc = _TETrace[1].denc
    /\ locked = _TETrace[1].locked
    /\ seed = _TETrace[1].seed
    /\ eff = _TETrace[1].eff
    /\ nseed = _TETrace[1].nseed
    /\ age = _TETrace[1].age
----

_next ==
    /\ \E i,j \in DOMAIN _TETrace:
        /\ \/ /\ j = i + 1
              /\ i = TLCGet("level")
        /\ frag  = _TETrace[i].frag
        /\ frag' = _TETrace[j].frag
        /\ active  = _TETrace[i].active
        /\ active' = _TETrace[j].active
        /\ qfrom  = _TETrace[i].qfrom
        /\ qfrom' = _TETrace[j].qfrom
        /\ msg  = _TETrace[i].msg
        /\ msg' = _TETrace[j].msg
        /\ lazy  = _TETrace[i].lazy
        /\ lazy' = _TETrace[j].lazy
        /\ araw  = _TETrace[i].araw
        /\ araw' = _TETrace[j].araw
        /\ conn  = _TETrace[i].conn
        /\ conn' = _TETrace[j].conn
        /\ authed  = _TETrace[i].authed
        /\ authed' = _TETrace[j].authed
        /\ out  = _TETrace[i].out
        /\ out' = _TETrace[j].out
        /\ reply  = _TETrace[i].reply
        /\ reply' = _TETrace[j].reply
        /\ enc  = _TETrace[i].enc
        /\ enc' = _TETrace[j].enc
        /\ host  = _TETrace[i].host
        /\ host' = _TETrace[j].host
        /\ answered  = _TETrace[i].answered
        /\ answered' = _TETrace[j].answered
        /\ held  = _TETrace[i].held
        /\ held' = _TETrace[j].held
        /\ denc  = _TETrace[i].denc
        /\ denc' = _TETrace[j].denc
        /\ locked  = _TETrace[i].locked
        /\ locked' = _TETrace[j].locked
        /\ seed  = _TETrace[i].seed
        /\ seed' = _TETrace[j].seed
        /\ eff  = _TETrace[i].eff
        /\ eff' = _TETrace[j].eff
        /\ nseed  = _TETrace[i].nseed
        /\ nseed' = _TETrace[j].nseed
        /\ age  = _TETrace[i].age
        /\ age' = _TETrace[j].age

\* Uncomment the ASSUME below to write the states of the error trace
\* to the given file in Json format. Note that you can pass any tuple
\* to `JsonSerialize`. For example, a sub-sequence of _TETrace.
    \* ASSUME
    \*     LET J == INSTANCE Json
    \*         IN J!JsonSerialize("MCSession_TTrace_1790723645.json", _TETrace)

=============================================================================

 Note that you can extract this module `MCSession_TEExpression`
  to a dedicated file to reuse `expression` (the module in the 
  dedicated `MCSession_TEExpression.tla` file takes precedence 
  over the module `MCSession_TEExpression` below).

---- MODULE MCSession_TEExpression ----
EXTENDS Sequences, TLCExt, Toolbox, Naturals, TLC, MCSession

expression == 
    [
        \* To hide variables of the `MCSession` spec from the error trace,
        \* remove the variables below.  The trace will be written in the order
        \* of the fields of this record.
        frag |-> frag
        ,active |-> active
        ,qfrom |-> qfrom
        ,msg |-> msg
        ,lazy |-> lazy
        ,araw |-> araw
        ,conn |-> conn
        ,authed |-> authed
        ,out |-> out
        ,reply |-> reply
        ,enc |-> enc
        ,host |-> host
        ,answered |-> answered
        ,held |-> held
        ,denc |-> denc
        ,locked |-> locked
        ,seed |-> seed
        ,eff |-> eff
        ,nseed |-> nseed
        ,age |-> age
        
        \* Put additional constant-, state-, and action-level expressions here:
        \* ,_stateNumber |-> _TEPosition
        \* ,_fragUnchanged |-> frag = frag'
        
        \* Format the `frag` variable as Json value.
        \* ,_fragJson |->
        \*     LET J == INSTANCE Json
        \*     IN J!ToJson(frag)
        
        \* Lastly, you may build expressions over arbitrary sets of states by
        \* leveraging the _TETrace operator.  For example, this is how to
        \* count the number of times a spec variable changed up to the current
        \* state in the trace.
        \* ,_fragModCount |->
        \*     LET F[s \in DOMAIN _TETrace] ==
        \*         IF s = 1 THEN 0
        \*         ELSE IF _TETrace[s].frag # _TETrace[s-1].frag
        \*             THEN 1 + F[s-1] ELSE F[s-1]
        \*     IN F[_TEPosition - 1]
    ]

=============================================================================



Parsing and semantic processing can take forever if the trace below is long.
 In this case, it is advised to uncomment the module below to deserialize the
 trace from a generated binary file.

\*
\*---- MODULE MCSession_TETrace ----
\*EXTENDS IOUtils, TLC, MCSession
\*
\*trace == IODeserialize("MCSession_TTrace_1790723645.bin", TRUE)
\*
\*=============================================================================
\*

---- MODULE MCSession_TETrace ----
EXTENDS TLC, MCSession

trace == 
    <<
    ([msg |-> [c |-> "init"],frag |-> (0 :> 100 @@ 1 :> 100),conn |-> (0 :> "dns" @@ 1 :> "dns"),answered |-> (0 :> FALSE @@ 1 :> FALSE),seed |-> (0 :> 0 @@ 1 :> 0),eff |-> {},held |-> (0 :> FALSE @@ 1 :> FALSE),lazy |-> (0 :> FALSE @@ 1 :> FALSE),active |-> (0 :> FALSE @@ 1 :> FALSE),araw |-> (0 :> FALSE @@ 1 :> FALSE),authed |-> (0 :> FALSE @@ 1 :> FALSE),out |-> (0 :> <<>> @@ 1 :> <<>>),qfrom |-> (0 :> 0 @@ 1 :> 0),host |-> (0 :> 0 @@ 1 :> 0),denc |-> (0 :> "T" @@ 1 :> "T"),enc |-> (0 :> "b32" @@ 1 :> "b32"),reply |-> "none",locked |-> (0 :> FALSE @@ 1 :> FALSE),nseed |-> 0,age |-> (0 :> 0 @@ 1 :> 0)]),
    ([msg |-> [c |-> "V", src |-> 1],frag |-> (0 :> 100 @@ 1 :> 100),conn |-> (0 :> "dns" @@ 1 :> "dns"),answered |-> (0 :> FALSE @@ 1 :> FALSE),seed |-> (0 :> 1 @@ 1 :> 0),eff |-> {[u |-> 0, k |-> "NewSession"]},held |-> (0 :> FALSE @@ 1 :> FALSE),lazy |-> (0 :> FALSE @@ 1 :> FALSE),active |-> (0 :> TRUE @@ 1 :> FALSE),araw |-> (0 :> FALSE @@ 1 :> FALSE),authed |-> (0 :> FALSE @@ 1 :> FALSE),out |-> (0 :> <<>> @@ 1 :> <<>>),qfrom |-> (0 :> 1 @@ 1 :> 0),host |-> (0 :> 1 @@ 1 :> 0),denc |-> (0 :> "T" @@ 1 :> "T"),enc |-> (0 :> "b32" @@ 1 :> "b32"),reply |-> "VACK",locked |-> (0 :> FALSE @@ 1 :> FALSE),nseed |-> 1,age |-> (0 :> 0 @@ 1 :> 0)]),
    ([msg |-> [c |-> "L", uid |-> 0, src |-> 1, claim |-> 1],frag |-> (0 :> 100 @@ 1 :> 100),conn |-> (0 :> "dns" @@ 1 :> "dns"),answered |-> (0 :> TRUE @@ 1 :> FALSE),seed |-> (0 :> 1 @@ 1 :> 0),eff |-> {},held |-> (0 :> FALSE @@ 1 :> FALSE),lazy |-> (0 :> FALSE @@ 1 :> FALSE),active |-> (0 :> TRUE @@ 1 :> FALSE),araw |-> (0 :> FALSE @@ 1 :> FALSE),authed |-> (0 :> TRUE @@ 1 :> FALSE),out |-> (0 :> <<>> @@ 1 :> <<>>),qfrom |-> (0 :> 1 @@ 1 :> 0),host |-> (0 :> 1 @@ 1 :> 0),denc |-> (0 :> "T" @@ 1 :> "T"),enc |-> (0 :> "b32" @@ 1 :> "b32"),reply |-> "LACK",locked |-> (0 :> FALSE @@ 1 :> FALSE),nseed |-> 1,age |-> (0 :> 0 @@ 1 :> 0)]),
    ([msg |-> [c |-> "D", uid |-> 0, src |-> 1, arg |-> 0],frag |-> (0 :> 100 @@ 1 :> 100),conn |-> (0 :> "dns" @@ 1 :> "dns"),answered |-> (0 :> TRUE @@ 1 :> FALSE),seed |-> (0 :> 1 @@ 1 :> 0),eff |-> {[u |-> 0, k |-> "Down", to |-> 1, p |-> [o |-> 0, d |-> 0]], [u |-> 0, k |-> "Forward", p |-> [o |-> 0, d |-> 0], v |-> 0]},held |-> (0 :> FALSE @@ 1 :> FALSE),lazy |-> (0 :> FALSE @@ 1 :> FALSE),active |-> (0 :> TRUE @@ 1 :> FALSE),araw |-> (0 :> FALSE @@ 1 :> FALSE),authed |-> (0 :> TRUE @@ 1 :> FALSE),out |-> (0 :> <<>> @@ 1 :> <<>>),qfrom |-> (0 :> 1 @@ 1 :> 0),host |-> (0 :> 1 @@ 1 :> 0),denc |-> (0 :> "T" @@ 1 :> "T"),enc |-> (0 :> "b32" @@ 1 :> "b32"),reply |-> "DATA",locked |-> (0 :> FALSE @@ 1 :> FALSE),nseed |-> 1,age |-> (0 :> 0 @@ 1 :> 0)])
    >>
----


=============================================================================

---- CONFIG MCSession_TTrace_1790723645 ----
CONSTANTS
    USERS = 2
    Srcs = { 1 , 2 }
    EXP = 2
    CheckIp = TRUE
    Dts = { 1 , 2 }
    OUTCAP = 1
    MaxSeeds = 2
    CodecArgs = { "b64" }
    OptArgs = { "L" , "bad" }
    FragArgs = { 1 , 60 }
    Uids <- QuickUids

INVARIANT
    _inv

CHECK_DEADLOCK
    \* CHECK_DEADLOCK off because of PROPERTY or INVARIANT above.
    FALSE

INIT
    _init

NEXT
    _next

CONSTANT
    _TETrace <- _trace

ALIAS
    _expression
=============================================================================
\* Generated on Tue Sep 29 23:14:06 UTC 2026