------------------------- MODULE TraceMonNegotiation -------------------------
EXTENDS MonNegotiation, TraceBase
VARIABLE l
tvars == <<n, l>>
TInit == MNInit /\ l = 1
Ev == TraceLog[l]
IsEvent(e) == l <= TraceLen /\ Ev.e = e /\ l' = l + 1
THs == IsEvent("Handshake") /\ Handshake(Ev.ok, Ev.premise)
TReset == IsEvent("Reset") /\ MNReset
TNext == THs \/ TReset
TraceSpec == TInit /\ [][TNext]_tvars
TraceAccepted ==
    LET d == TLCGet("stats").diameter IN
    /\ PrintT(<<"TRACE_REACHED", d - 1, TraceLen>>)
    /\ d - 1 = TraceLen
=============================================================================
