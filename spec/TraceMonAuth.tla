---------------------------- MODULE TraceMonAuth ----------------------------
EXTENDS MonAuth, TraceBase
VARIABLE l
tvars == <<answered, l>>
TInit == MAuInit /\ l = 1
Ev == TraceLog[l]
IsEvent(e) == l <= TraceLen /\ Ev.e = e /\ l' = l + 1
TNew == IsEvent("NewSession") /\ NewSession(Ev.u)
TGood == IsEvent("GoodLogin") /\ GoodLogin(Ev.u)
TPriv == IsEvent("Priv") /\ Priv(Ev.k, Ev.u)
TReset == IsEvent("Reset") /\ MAuReset
\* "Garbage" (a question-less datagram emitted on the DNS socket) has no enabled action
TNext == TNew \/ TGood \/ TPriv \/ TReset
TraceSpec == TInit /\ [][TNext]_tvars
TraceAccepted ==
    LET d == TLCGet("stats").diameter IN
    /\ PrintT(<<"TRACE_REACHED", d - 1, TraceLen>>)
    /\ d - 1 = TraceLen
=============================================================================
