--------------------------- MODULE TraceMonIntegrity ---------------------------
EXTENDS MonIntegrity, TraceBase

VARIABLE l
tvars == <<offered, l>>

TInit == MIInit /\ l = 1

Ev == TraceLog[l]
IsEvent(e) == l <= TraceLen /\ Ev.e = e /\ l' = l + 1

TOffer == IsEvent("Offer") /\ Offer(Ev.side, Ev.p)
TWrite == IsEvent("Write") /\ Write(Ev.side, Ev.p)
TReset == IsEvent("Reset") /\ MIReset

TNext == TOffer \/ TWrite \/ TReset
TraceSpec == TInit /\ [][TNext]_tvars

\* acceptance: every line consumed.  Diameter = number of states on the (linear) path.
TraceAccepted ==
    LET d == TLCGet("stats").diameter IN
    /\ PrintT(<<"TRACE_REACHED", d - 1, TraceLen>>)
    /\ d - 1 = TraceLen
=============================================================================
