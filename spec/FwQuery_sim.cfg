SPECIFICATION SSpec
CONSTANTS
  RING = 16
  Srcs = {1, 2, 3}
  Ids = {0, 5, 6, 7, 8, 9, 10, 11, 12, 13, 14, 15, 16, 17, 18, 19, 20, 21, 22, 23}
  MaxHist = 1000
  HLEN = 60
INVARIANT EmitS
CHECK_DEADLOCK FALSE
