------------------------------ MODULE TraceShell ------------------------------
EXTENDS Shell, TraceBase
VARIABLE l
tvars == <<n, l>>
TInit == SInit /\ l = 1
Ev == TraceLog[l]
IsEvent(e) == l <= TraceLen /\ Ev.e = e /\ l' = l + 1
TSystem == IsEvent("System") /\ System(Ev.cmd)
TNoCmd == IsEvent("NoCmd") /\ UNCHANGED n
TReset == IsEvent("Reset") /\ SReset
TNext == TSystem \/ TNoCmd \/ TReset
TraceSpec == TInit /\ [][TNext]_tvars
TraceAccepted ==
    LET d == TLCGet("stats").diameter IN
    /\ PrintT(<<"TRACE_REACHED", d - 1, TraceLen>>)
    /\ d - 1 = TraceLen
=============================================================================
