-------------------------------- MODULE Tunnel --------------------------------
(* Layer A: implementation-shaped specification of the iodine DATA PLANE for    *)
(* one established DNS-mode session (src/client.c tunnel_tun/tunnel_dns/        *)
(* client_tunnel, src/iodined.c handle_null_request ping+data branches,         *)
(* send_chunk_or_dataless, process_downstream_ack, tunnel_tun, the sweep at the *)
(* end of the server loop).  One action per handler invocation of the two real  *)
(* event loops; the network and both tun devices are explicit environment.      *)
(*                                                                              *)
(* Data abstraction: a tun packet is an integer p; its compressed image is the  *)
(* sequence of "units" <<p+1, ..., p+PLen(p)>>; a fragment carries a contiguous *)
(* slice; Uncompress(buf) = p iff buf is exactly Image(p) (assumption A-zlib).  *)
(* A query name is identified by nm (content identity) and cs (letter-case      *)
(* variant); the DNS id is separate, so relays may re-ask with a new id.        *)
(*                                                                              *)
(* Known oddities are modelled as they are: gap-tolerant server reassembly,     *)
(* un-acked single-fragment downstream packets, id = 0 as "no query", fragment  *)
(* counters that are not reduced modulo FRAGMOD when compared with acks.        *)
EXTENDS Naturals, Sequences, FiniteSets, Bags, TLC

CONSTANTS
    SEQMOD,         \* 8   packet sequence numbers are 3 bit
    FRAGMOD,        \* 16  fragment numbers are 4 bit on the wire
    RECENT,         \* 4   "recent" = current seqno and RECENT-1 before it
    UpLens, DnLens, \* sequences: length in units of the i-th packet offered on the client / server tun
    CAPUP,          \* units that fit one upstream query name
    FRAGSIZE,       \* units per downstream fragment (negotiated fragment size)
    CACHE,          \* 4   answer cache entries
    QMEMD, QMEMP,   \* 15 / 30  query memories (data / ping)
    OUTQ,           \* 4   downstream packet queue
    SRVRESEND,      \* 5   server re-sends of one fragment before the packet is dropped
    CLIRESEND,      \* 3   client re-sends of one chunk before the packet is dropped
    LAZY,           \* BOOLEAN  lazy mode negotiated
    MaxLoss, MaxDup,\* fault budgets of the network
    MaxQ,           \* bound on the number of queries the client emits
    MaxTO,          \* bound on the number of client timeouts
    PROMPT          \* BOOLEAN: the path is prompt and in-order: a client timeout fires only when no datagram is
                    \* in flight, and datagrams of one direction are delivered in the order they were sent

VARIABLES
    C,              \* client state record (static variables of client.c)
    S,              \* server state record (users[u] of iodined.c)
    netQ, netA,     \* sets of query / answer datagrams in flight
    upNext, dnNext, \* index of the next packet the environment offers on the client / server tun
    tunS, tunC,     \* sequences of packets written to the server / client tun device
    accS, accC,     \* sequences of packets ACCEPTED from the client / server tun (not discarded)
    loss, dup, tos, \* budgets used so far
    rcvd, answd,    \* ghost: bags of <<id, nm, cs>> the server received / answered
    aser,           \* number of answers emitted so far (emission order of answers, field ser)
    lastact         \* ghost: name of the last action (for readable counterexamples)

vars == <<C, S, netQ, netA, upNext, dnNext, tunS, tunC, accS, accC, loss, dup, tos, rcvd, answd, aser, lastact>>

-----------------------------------------------------------------------------
(* packets and units *)
UpPkt(i) == 100 + 10 * i
DnPkt(i) == 200 + 10 * i
UpPkts == {UpPkt(i) : i \in 1..Len(UpLens)}
DnPkts == {DnPkt(i) : i \in 1..Len(DnLens)}
AllPkts == UpPkts \cup DnPkts
PLen(p) == IF p < 200 THEN UpLens[(p - 100) \div 10] ELSE DnLens[(p - 200) \div 10]
Image(p) == [k \in 1..PLen(p) |-> p + k]
Uncompress(buf) == IF \E p \in AllPkts : buf = Image(p)
                   THEN CHOOSE p \in AllPkts : buf = Image(p) ELSE 0
Min(a, b) == IF a < b THEN a ELSE b

Recent(our, got) == \E i \in 0..(RECENT - 1) : got = (our + SEQMOD - i) % SEQMOD
Push(ring, x, n) == IF Len(ring) < n THEN Append(ring, x) ELSE Append(Tail(ring), x)

NoQ == [id |-> 0, id2 |-> 0, nm |-> 0, cs |-> 0, cs2 |-> 0, kind |-> "none"]

-----------------------------------------------------------------------------
(* ------------------------------- client -------------------------------- *)

CInit == [oseq |-> 0, ofrag |-> 0, ooff |-> 0, osent |-> 0, olen |-> 0, opkt |-> 0,
          iseq |-> 0, ifrag |-> 0, ibuf |-> <<>>, resent |-> 0, idcur |-> 0, ps |-> TRUE,
          outbox |-> <<>>, tunw |-> <<>>]

Sending(c) == c.olen # 0

\* send_chunk(): cut the next chunk and emit a data query (new id, new name: the data CMC changes)
SendChunk(c) ==
    LET n == Min(CAPUP, c.olen - c.ooff)
        q == [id |-> c.idcur + 1, nm |-> c.idcur + 1, cs |-> 0, kind |-> "data",
              useq |-> c.oseq, ufrag |-> c.ofrag % FRAGMOD, dseq |-> c.iseq, dfrag |-> c.ifrag % FRAGMOD,
              last |-> (n = c.olen - c.ooff), units |-> SubSeq(Image(c.opkt), c.ooff + 1, c.ooff + n)]
    IN [c EXCEPT !.osent = n, !.idcur = @ + 1, !.outbox = Append(@, q)]

\* send_ping()
SendPing(c) ==
    LET q == [id |-> c.idcur + 1, nm |-> c.idcur + 1, cs |-> 0, kind |-> "ping",
              useq |-> 0, ufrag |-> 0, dseq |-> c.iseq, dfrag |-> c.ifrag % FRAGMOD,
              last |-> FALSE, units |-> <<>>]
    IN [c EXCEPT !.idcur = @ + 1, !.outbox = Append(@, q)]

ClearOut(c) == [c EXCEPT !.ooff = 0, !.olen = 0, !.osent = 0, !.resent = 0, !.opkt = 0]

\* tunnel_tun(): a packet p is read from the client's tun device
CliTun(c, p) ==
    IF Sending(c) THEN c        \* read and discarded (only polled when resent >= 2)
    ELSE LET c1 == [c EXCEPT !.opkt = p, !.olen = PLen(p), !.ooff = 0, !.osent = 0,
                             !.oseq = (c.oseq + 1) % SEQMOD, !.ofrag = 0, !.resent = 0]
         IN [SendChunk(c1) EXCEPT !.ps = FALSE]

\* the downstream half of tunnel_dns() for an answer with data (read > 2)
CliDown(c, a) ==
    LET fresh == a.dseq # c.iseq
        c1 == IF fresh THEN [c EXCEPT !.iseq = a.dseq, !.ifrag = a.dfrag, !.ibuf = <<>>] ELSE c
        weird == ~fresh /\ c.ifrag = 0 /\ a.dfrag = 0 /\ c.ibuf = <<>>
        dupfrag == ~fresh /\ ~weird /\ a.dfrag <= c.ifrag
        gap == ~fresh /\ ~weird /\ ~dupfrag /\ a.dfrag > c.ifrag + 1
    IN IF dupfrag \/ gap THEN [c |-> [c EXCEPT !.ps = TRUE], now |-> FALSE]
       ELSE LET c2 == [c1 EXCEPT !.ifrag = a.dfrag, !.ibuf = c1.ibuf \o a.units]
                p == IF a.last THEN Uncompress(c2.ibuf) ELSE 0
                c3 == IF a.last
                      THEN [c2 EXCEPT !.ibuf = <<>>, !.tunw = IF p # 0 THEN Append(@, p) ELSE @]
                      ELSE c2
            IN IF c3.ibuf = <<>> THEN [c |-> [c3 EXCEPT !.ps = TRUE], now |-> FALSE]
               ELSE [c |-> c3, now |-> TRUE]

\* the upstream half of tunnel_dns(): ack handling
CliUp(c, a, now) ==
    IF Sending(c) /\ a.useq = c.oseq /\ a.ufrag = c.ofrag
    THEN LET c1 == [c EXCEPT !.ooff = @ + c.osent]
         IN IF c1.ooff >= c1.olen
            THEN [c |-> [ClearOut(c1) EXCEPT !.ps = TRUE], now |-> now]
            ELSE [c |-> [SendChunk([c1 EXCEPT !.ofrag = @ + 1, !.resent = 0]) EXCEPT !.ps = FALSE],
                  now |-> FALSE]
    ELSE [c |-> c, now |-> now]

\* tunnel_dns(): one answer datagram arrives at the client
CliRecv(c, a) ==
    IF a.illegal THEN [c EXCEPT !.ps = TRUE]                   \* read < 2: ping soon, nothing else
    ELSE
    LET now0 == c.ps
        c0 == [c EXCEPT !.ps = FALSE]
        hasdata == Len(a.units) > 0
        olddup == hasdata /\ a.dseq # c0.iseq /\ Recent(c0.iseq, a.dseq)
        data == hasdata /\ ~olddup
        c1 == IF olddup THEN [c0 EXCEPT !.ps = TRUE] ELSE c0
        idok == a.id \in {c1.idcur, c1.idcur - 1, c1.idcur - 2} /\ a.id > 0
    IN IF ~idok THEN (IF now0 THEN [SendPing(c1) EXCEPT !.ps = FALSE] ELSE c1)
       ELSE
       LET c2 == IF a.id = c1.idcur /\ LAZY THEN [c1 EXCEPT !.ps = TRUE] ELSE c1
           c3 == IF ~data /\ a.dseq # c2.iseq /\ ~Recent(c2.iseq, a.dseq)
                 THEN [c2 EXCEPT !.iseq = a.dseq, !.ifrag = a.dfrag, !.ibuf = <<>>, !.ps = TRUE]
                 ELSE c2
           d == IF data THEN CliDown(c3, a) ELSE [c |-> c3, now |-> FALSE]
           u == CliUp(d.c, a, now0 \/ d.now)
       IN IF u.now THEN [SendPing(u.c) EXCEPT !.ps = FALSE] ELSE u.c

\* select() timeout in client_tunnel()
CliTimeout(c) ==
    LET c1 == IF Sending(c)
              THEN IF c.resent < CLIRESEND THEN SendChunk([c EXCEPT !.resent = @ + 1])
                   ELSE SendPing(ClearOut(c))
              ELSE SendPing(c)
    IN [c1 EXCEPT !.ps = FALSE]

-----------------------------------------------------------------------------
(* ------------------------------- server -------------------------------- *)

SInit == [iseq |-> 0, ifrag |-> 0, ibuf |-> <<>>,
          opkt |-> 0, oseq |-> 0, ofrag |-> 0, ooff |-> 0, osent |-> 0, olen |-> 0,
          outq |-> <<>>, resent |-> 0, q |-> NoQ, qrs |-> NoQ, qrsnew |-> FALSE,
          cache |-> <<>>, qmP |-> <<>>, qmD |-> <<>>, outbox |-> <<>>, tunw |-> <<>>]

DropOut(s) == [s EXCEPT !.olen = 0, !.ooff = 0, !.osent = 0, !.resent = 0, !.opkt = 0]

StartOut(s, p) == [s EXCEPT !.opkt = p, !.olen = PLen(p), !.ooff = 0, !.osent = 0,
                            !.oseq = (s.oseq + 1) % SEQMOD, !.ofrag = 0, !.resent = 0]

\* get_from_outpacketq()
Refill(s) == IF s.outq = <<>> THEN [s |-> s, ok |-> FALSE]
             ELSE [s |-> [StartOut(s, Head(s.outq)) EXCEPT !.outq = Tail(s.outq)], ok |-> TRUE]

Slot(s, w) == IF w = "q" THEN s.q ELSE s.qrs
SetSlot(s, w, v) == IF w = "q" THEN [s EXCEPT !.q = v] ELSE [s EXCEPT !.qrs = v]

\* send_chunk_or_dataless(): answer the query held in slot w
Send(s, w) ==
    LET s1 == IF s.olen > 0 /\ s.resent > SRVRESEND THEN Refill(DropOut(s)).s ELSE s
        has == s1.olen > 0
        n == IF has THEN Min(FRAGSIZE, s1.olen - s1.ooff) ELSE 0
        last == has /\ (s1.ooff + n = s1.olen)
        s2 == IF has THEN [s1 EXCEPT !.osent = n, !.resent = @ + 1] ELSE s1
        sl == Slot(s2, w)
        ans == [id |-> sl.id, nm |-> sl.nm, cs |-> sl.cs, kind |-> sl.kind, illegal |-> FALSE, ser |-> 0,
                useq |-> s2.iseq, ufrag |-> s2.ifrag % FRAGMOD, dseq |-> s2.oseq,
                dfrag |-> s2.ofrag % FRAGMOD, last |-> last,
                units |-> IF has THEN SubSeq(Image(s2.opkt), s2.ooff + 1, s2.ooff + n) ELSE <<>>]
        out1 == Append(s2.outbox, ans)
        out2 == IF sl.id2 # 0 THEN Append(out1, [ans EXCEPT !.id = sl.id2, !.cs = sl.cs2]) ELSE out1   \* the duplicate's own spelling
        s3 == [s2 EXCEPT !.outbox = out2,
                         !.qmP = IF sl.kind = "ping" THEN Push(@, sl.nm, QMEMP) ELSE @,
                         !.qmD = IF sl.kind = "data" THEN Push(@, sl.nm, QMEMD) ELSE @,
                         !.cache = Push(@, [nm |-> sl.nm, cs |-> sl.cs, ans |-> ans], CACHE)]
        s4 == SetSlot(s3, w, [sl EXCEPT !.id = 0])
    IN IF n > 0 /\ n = s4.olen
       THEN LET r == Refill(DropOut(s4)) IN [s |-> r.s, again |-> r.ok]   \* whole packet in one chunk: no ack awaited
       ELSE [s |-> s4, again |-> FALSE]

\* process_downstream_ack()
Ack(s, dseq, dfrag) ==
    IF s.olen = 0 \/ s.oseq # dseq \/ s.ofrag # dfrag \/ s.osent = 0 THEN s      \* (osent = 0: nothing of it sent yet)
    ELSE LET s1 == [s EXCEPT !.ooff = @ + s.osent, !.osent = 0, !.ofrag = @ + 1, !.resent = 0]
         IN IF s1.ooff >= s1.olen
            THEN Refill([s1 EXCEPT !.olen = 0, !.ooff = 0, !.opkt = 0, !.ofrag = @ - 1]).s
            ELSE s1

CacheHit(s, m) == \E i \in 1..Len(s.cache) : s.cache[i].nm = m.nm /\ s.cache[i].cs = m.cs
CachedAns(s, m) == LET i == CHOOSE i \in 1..Len(s.cache) :
                              /\ s.cache[i].nm = m.nm /\ s.cache[i].cs = m.cs
                              /\ \A j \in 1..Len(s.cache) :
                                    (s.cache[j].nm = m.nm /\ s.cache[j].cs = m.cs) => j <= i
                   IN [s.cache[i].ans EXCEPT !.id = m.id]
InRing(r, x) == \E i \in 1..Len(r) : r[i] = x
Illegal(m) == [id |-> m.id, nm |-> m.nm, cs |-> m.cs, kind |-> m.kind, illegal |-> TRUE, ser |-> 0,
               useq |-> 0, ufrag |-> 0, dseq |-> 0, dfrag |-> 0, last |-> FALSE, units |-> <<>>]
NewQ(m) == [id |-> m.id, id2 |-> 0, nm |-> m.nm, cs |-> m.cs, cs2 |-> 0, kind |-> m.kind]
\* held queries are compared ignoring letter case (strcasecmp), the answer cache by the exact name
SameName(sl, m) == sl.id # 0 /\ sl.nm = m.nm

\* the duplicate defences common to ping and data, in the order of the code.
\* Returns [done, s]: done = the query was consumed by a defence
Defences(s, m) ==
    IF CacheHit(s, m) THEN [done |-> TRUE, s |-> [s EXCEPT !.outbox = Append(@, CachedAns(s, m))]]
    ELSE IF InRing(IF m.kind = "ping" THEN s.qmP ELSE s.qmD, m.nm)
         THEN [done |-> TRUE, s |-> [s EXCEPT !.outbox = Append(@, Illegal(m))]]
    ELSE IF SameName(s.q, m) /\ LAZY THEN [done |-> TRUE, s |-> [s EXCEPT !.q.id2 = m.id, !.q.cs2 = m.cs]]
    ELSE IF SameName(s.qrs, m) THEN [done |-> TRUE, s |-> [s EXCEPT !.qrs.id2 = m.id, !.qrs.cs2 = m.cs]]
    ELSE [done |-> FALSE, s |-> s]

\* handle_null_request(), 'P' branch
SrvPing(s, m) ==
    LET d == Defences(s, m) IN
    IF m.id = 0 THEN s              \* "We can't handle id=0, that's 'no packet' to us. So drop request completely."
    ELSE IF d.done THEN d.s
    ELSE LET s1 == Ack(s, m.dseq, m.dfrag)
             s2 == IF s1.qrs.id # 0 THEN Send(s1, "qrs").s ELSE s1
             r == IF s2.q.id # 0 THEN Send(s2, "q") ELSE [s |-> s2, again |-> TRUE]
             did == s2.q.id # 0 /\ ~r.again
             s3 == [r.s EXCEPT !.q = NewQ(m)]
         IN IF (~did /\ s3.olen > 0) \/ ~LAZY THEN Send(s3, "q").s ELSE s3

\* handle_full_packet() for the single-session case: write to tun when the buffer uncompresses
FullPacket(s) ==
    LET p == Uncompress(s.ibuf)
    IN [s EXCEPT !.ibuf = <<>>, !.tunw = IF p # 0 THEN Append(@, p) ELSE @]

\* handle_null_request(), data branch
SrvData(s, m) ==
    LET d == Defences(s, m) IN
    IF m.id = 0 THEN s              \* dropped completely, as for pings
    ELSE IF d.done THEN d.s
    ELSE
    LET s1 == Ack(s, m.dseq, m.dfrag)
        oldfrag == m.useq = s1.iseq /\ m.ufrag <= s1.ifrag
        oldseq == m.useq # s1.iseq /\ Recent(s1.iseq, m.useq)
        ok == ~oldfrag /\ ~oldseq
        s2 == IF ~ok THEN s1
              ELSE IF m.useq # s1.iseq
                   THEN [s1 EXCEPT !.iseq = m.useq, !.ifrag = m.ufrag, !.ibuf = m.units]
                   ELSE [s1 EXCEPT !.ifrag = m.ufrag, !.ibuf = @ \o m.units]
        s3 == IF ok /\ m.last THEN FullPacket(s2) ELSE s2
        \* q_sendrealsoon first
        r1 == IF s3.qrs.id # 0 THEN Send(s3, "qrs") ELSE [s |-> s3, again |-> TRUE]
        did1 == s3.qrs.id # 0 /\ ~r1.again
        s4 == r1.s
        \* then the held query
        sendq == (s4.olen > 0 /\ ~did1) \/ (ok /\ ~m.last /\ ~did1) \/ (~ok /\ ~did1) \/ ~LAZY
        r2 == IF s4.q.id = 0 THEN [s |-> s4, did |-> did1]
              ELSE IF sendq THEN LET r == Send(s4, "q") IN [s |-> r.s, did |-> ~r.again]
              ELSE [s |-> [s4 EXCEPT !.qrs = s4.q, !.qrsnew = TRUE, !.q.id = 0], did |-> TRUE]
        s5 == [r2.s EXCEPT !.q = NewQ(m)]
        did == r2.did
    IN IF s5.olen > 0 /\ ~did THEN Send(s5, "q").s
       ELSE IF ~did \/ ~LAZY
            THEN IF ok /\ m.last
                 THEN [s5 EXCEPT !.qrs = s5.q, !.qrsnew = TRUE, !.q.id = 0]
                 ELSE Send(s5, "q").s
            ELSE s5

\* tunnel_tun() of the server: packet p arrives for this session
SrvTun(s, p) ==
    IF s.olen > 0 THEN (IF Len(s.outq) < OUTQ THEN [s EXCEPT !.outq = Append(@, p)] ELSE s)
    ELSE LET s1 == StartOut(s, p)
         IN IF s1.qrs.id # 0 THEN Send(s1, "qrs").s
            ELSE IF s1.q.id # 0 THEN Send(s1, "q").s ELSE s1

\* one iteration of the server loop: reset q_sendrealsoon_new, run the handler, then the sweep
Sweep(s) == IF s.qrs.id # 0 /\ ~s.qrsnew THEN Send(s, "qrs").s ELSE s
Begin(s) == [s EXCEPT !.qrsnew = FALSE, !.outbox = <<>>, !.tunw = <<>>]

-----------------------------------------------------------------------------
(* ---------------------------- the system ------------------------------- *)

Init ==
    /\ C = CInit /\ S = SInit
    /\ netQ = {} /\ netA = {}
    /\ upNext = 1 /\ dnNext = 1
    /\ tunS = <<>> /\ tunC = <<>> /\ accS = <<>> /\ accC = <<>>
    /\ loss = 0 /\ dup = 0 /\ tos = 0
    /\ rcvd = EmptyBag /\ answd = EmptyBag /\ aser = 0
    /\ lastact = "init"

SeqToSet(s) == {s[i] : i \in 1..Len(s)}
AnsBag(box) == LET F[i \in 0..Len(box)] ==
                     IF i = 0 THEN EmptyBag
                     ELSE F[i - 1] (+) SetToBag({<<box[i].id, box[i].nm, box[i].cs>>})
               IN F[Len(box)]

\* commit the effects of a client step
CliCommit(c) ==
    /\ C' = [c EXCEPT !.outbox = <<>>, !.tunw = <<>>]
    /\ netQ' = netQ \cup SeqToSet(c.outbox)
    /\ tunC' = tunC \o c.tunw
    /\ UNCHANGED <<S, tunS, dnNext, accC, rcvd, answd, aser>>

\* commit the effects of a server step (handler already followed by the sweep)
SrvCommit(s) ==
    /\ S' = [s EXCEPT !.outbox = <<>>, !.tunw = <<>>]
    /\ netA' = netA \cup {[s.outbox[i] EXCEPT !.ser = aser + i] : i \in 1..Len(s.outbox)}
    /\ aser' = aser + Len(s.outbox)
    /\ tunS' = tunS \o s.tunw
    /\ answd' = answd (+) AnsBag(s.outbox)
    /\ UNCHANGED <<C, tunC, upNext, accS>>

CanEmit == C.idcur < MaxQ

\* --- client actions
ACliTun ==
    /\ upNext <= Len(UpLens) /\ CanEmit
    /\ (~Sending(C) \/ C.resent >= 2)                       \* FD_SET(tun_fd) condition
    /\ LET p == UpPkt(upNext) IN
       /\ CliCommit(CliTun([C EXCEPT !.outbox = <<>>, !.tunw = <<>>], p))
       /\ accS' = IF Sending(C) THEN accS ELSE Append(accS, p)
    /\ upNext' = upNext + 1
    /\ lastact' = "CliTun"
    /\ UNCHANGED <<netA, loss, dup, tos>>

ACliRecv(a, keep) ==
    /\ a \in netA /\ CanEmit
    /\ PROMPT => \A b \in netA : a.ser <= b.ser
    /\ CliCommit(CliRecv(C, a))
    /\ netA' = IF keep THEN netA ELSE netA \ {a}
    /\ dup' = IF keep THEN dup + 1 ELSE dup
    /\ lastact' = "CliRecv"
    /\ UNCHANGED <<upNext, accS, loss, tos>>

ACliTimeout ==
    /\ tos < MaxTO /\ CanEmit
    /\ PROMPT => (netQ = {} /\ netA = {})
    /\ CliCommit(CliTimeout(C))
    /\ tos' = tos + 1
    /\ lastact' = "CliTimeout"
    /\ UNCHANGED <<netA, upNext, accS, loss, dup>>

\* --- server actions
StreamPos(s) == <<s.iseq, s.ifrag, s.ibuf, s.opkt, s.oseq, s.ofrag, s.ooff, s.olen, s.outq>>
\* the windows of C16: among the last CACHE answered queries, the last QMEMD data / QMEMP ping queries, or held
RecentlySeen(s, m) ==
    \/ \E i \in 1..Len(s.cache) : s.cache[i].nm = m.nm
    \/ InRing(IF m.kind = "ping" THEN s.qmP ELSE s.qmD, m.nm)
    \/ (s.q.id # 0 /\ s.q.nm = m.nm)
    \/ (s.qrs.id # 0 /\ s.qrs.nm = m.nm)
ASrvRecv(m, keep, newid, flip) ==
    /\ m \in netQ
    /\ PROMPT => \A b \in netQ : m.id <= b.id
    /\ LET m1 == [m EXCEPT !.id = IF newid THEN 1000 + dup ELSE @, !.cs = IF flip THEN 1 - @ ELSE @]
           s0 == Begin(S)
           s1 == IF m1.kind = "ping" THEN SrvPing(s0, m1) ELSE SrvData(s0, m1)
       IN /\ SrvCommit(Sweep(s1))
          /\ rcvd' = rcvd (+) SetToBag({<<m1.id, m1.nm, m1.cs>>})
          \* C16 ghost: the handler (before the sweep) moved a stream position although the query was one the server
          \* had recently seen (answered and still remembered, or currently held - letter case and id ignored)
          /\ lastact' = IF RecentlySeen(s0, m1) THEN (IF StreamPos(s1) # StreamPos(s0) THEN "SrvRecvTwice" ELSE "SrvRecvSeen")
                         ELSE "SrvRecv"
    /\ netQ' = IF keep THEN netQ ELSE netQ \ {m}
    /\ dup' = IF keep THEN dup + 1 ELSE dup
    /\ UNCHANGED <<dnNext, accC, loss, tos>>

ASrvTun ==
    /\ dnNext <= Len(DnLens)
    /\ Len(S.outq) < 1                                     \* !all_users_waiting_to_send()
    /\ LET p == DnPkt(dnNext) IN
       /\ SrvCommit(Sweep(SrvTun(Begin(S), p)))
       /\ accC' = Append(accC, p)
    /\ dnNext' = dnNext + 1
    /\ lastact' = "SrvTun"
    /\ UNCHANGED <<netQ, rcvd, loss, dup, tos>>

\* select() timeout (20 ms) of the server loop: only the sweep
ASrvTick ==
    /\ S.qrs.id # 0
    /\ SrvCommit(Sweep(Begin(S)))
    /\ lastact' = "SrvTick"
    /\ UNCHANGED <<netQ, dnNext, accC, rcvd, loss, dup, tos>>

\* --- network faults
ADropQ(m) == /\ m \in netQ /\ loss < MaxLoss
             /\ netQ' = netQ \ {m} /\ loss' = loss + 1 /\ lastact' = "DropQ"
             /\ UNCHANGED <<C, S, netA, upNext, dnNext, tunS, tunC, accS, accC, dup, tos, rcvd, answd, aser>>
ADropA(a) == /\ a \in netA /\ loss < MaxLoss
             /\ netA' = netA \ {a} /\ loss' = loss + 1 /\ lastact' = "DropA"
             /\ UNCHANGED <<C, S, netQ, upNext, dnNext, tunS, tunC, accS, accC, dup, tos, rcvd, answd, aser>>

Next ==
    \/ ACliTun \/ ACliTimeout
    \/ \E a \in netA : ACliRecv(a, FALSE) \/ (dup < MaxDup /\ ACliRecv(a, TRUE)) \/ ADropA(a)
    \/ \E m \in netQ : \/ ASrvRecv(m, FALSE, FALSE, FALSE)
                       \/ (dup < MaxDup /\ \E ni \in BOOLEAN, fl \in BOOLEAN : ASrvRecv(m, TRUE, ni, fl))
                       \/ ADropQ(m)
    \/ ASrvTun \/ ASrvTick

Spec == Init /\ [][Next]_vars

-----------------------------------------------------------------------------
(* --------------------------- properties -------------------------------- *)

IsSubSeqNoRepeat(s, t) ==   \* s is obtained from t by deleting elements (order kept, each at most once)
    LET F[i \in 0..Len(s), j \in 0..Len(t)] ==
          IF i = 0 THEN TRUE
          ELSE IF j = 0 THEN FALSE
          ELSE (s[i] = t[j] /\ F[i - 1, j - 1]) \/ F[i, j - 1]
    IN F[Len(s), Len(t)]

\* C01: nothing is written that was not read from the peer's tun device
Integrity == /\ \A i \in 1..Len(tunS) : \E j \in 1..Len(accS) : tunS[i] = accS[j]
             /\ \A i \in 1..Len(tunC) : \E j \in 1..Len(accC) : tunC[i] = accC[j]

\* C02 (safety half): accepted packets are written at most once and in the order accepted
InOrderOnce == IsSubSeqNoRepeat(tunS, accS) /\ IsSubSeqNoRepeat(tunC, accC)

\* C02 (no silent loss on a clean path): when everything offered has been read, nobody is sending and the
\* network is quiet, every accepted packet has been written (use with MaxLoss = 0, MaxDup = 0)
Quiet == /\ netQ = {} /\ netA = {} /\ upNext > Len(UpLens) /\ dnNext > Len(DnLens)
         /\ ~Sending(C) /\ S.olen = 0 /\ S.outq = <<>> /\ C.ibuf = <<>> /\ S.ibuf = <<>>
DoneDelivered == Quiet => (tunS = accS /\ tunC = accC)

\* C14: every answer consumes a distinct received query with the same id and question
NoSurplus == answd \sqsubseteq rcvd
HeldAtMostTwo == Cardinality({w \in {"q", "qrs"} : Slot(S, w).id # 0}) <= 2

\* C15: size bound, consecutive numbering, last flag only on the final fragment
FragBound == \A a \in netA : Len(a.units) <= FRAGSIZE
LastFlagRight == \A a \in netA :
    (Len(a.units) > 0 /\ ~a.illegal) =>
        LET p == a.units[1] - ((a.units[1]) % 10)       \* packet the units belong to
        IN (a.last <=> a.units[Len(a.units)] = p + PLen(p))

\* structural sanity of the server record (DNS mode: buffer length = offset)
TypeOK == /\ S.ooff <= S.olen /\ S.osent <= FRAGSIZE
          /\ Len(S.outq) <= OUTQ /\ Len(S.cache) <= CACHE
          /\ Len(S.qmD) <= QMEMD /\ Len(S.qmP) <= QMEMP
          /\ C.ooff <= C.olen

\* C16: a step that consumes a re-delivered query (already in a defence window) changes no stream position
NeverTwice == lastact # "SrvRecvTwice"
=============================================================================
