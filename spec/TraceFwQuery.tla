----------------------------- MODULE TraceFwQuery -----------------------------
(* Layer A binding: recorded forward/reply steps of the real iodined are a    *)
(* behaviour of FwQuery.tla (exact first-match routing, id kept).             *)
EXTENDS FwQuery, TraceBase
VARIABLE l
tvars == <<vars, l>>
TInit == Init /\ l = 1
Ev == TraceLog[l]
IsEvent(e) == l <= TraceLen /\ Ev.e = e /\ l' = l + 1
TFwd == IsEvent("Fwd") /\ Forward(Ev.src, Ev.id) /\ Ev.nout = 1 /\ Ev.outid = act'.outid
TReply == IsEvent("Reply") /\ Reply(Ev.id) /\ (act'.sent <=> Ev.nsent = 1) /\ (act'.sent => act'.to = Ev.to)
TReset == IsEvent("Reset") /\ ring' = [i \in 0..(RING - 1) |-> [addr |-> NoAddr, id |-> 0]]
          /\ ix' = 0 /\ hist' = <<>> /\ act' = [a |-> "init"]
TNext == TFwd \/ TReply \/ TReset
TraceSpec == TInit /\ [][TNext]_tvars
TraceAccepted ==
    LET d == TLCGet("stats").diameter IN
    /\ PrintT(<<"TRACE_REACHED", d - 1, TraceLen>>)
    /\ d - 1 = TraceLen
=============================================================================
