------------------------------ MODULE MonFragsize ------------------------------
(* Property monitor for C15.  Observables (decoded from the server's answers):  *)
(*   NewSession(u)         a version request was acknowledged with userid u     *)
(*   SetFrag(u, f, ok)     the server answered a set-fragment-size request      *)
(*   Data(u, len, dseq, dfrag, last, complete)                                  *)
(*                         a first-time answer to a ping/data query of session u*)
(*                         carrying len > 0 payload bytes after the 2-byte      *)
(*                         header; complete = the fragments emitted so far for  *)
(*                         this packet concatenate to a whole packet image      *)
(*   Dataless(u), Replay   answers without payload / verbatim cache replays     *)
EXTENDS Naturals

CONSTANTS Users, DefaultFrag, FragMod

VARIABLES fs,     \* fs[u]  fragment size in force
          cur     \* cur[u] = [seq, frag] of the packet being sent, seq = 8 when none

MFInit == /\ fs = [u \in Users |-> DefaultFrag]
          /\ cur = [u \in Users |-> [seq |-> 8, frag |-> 0]]

NewSession(u) == /\ u \in Users
                 /\ fs' = [fs EXCEPT ![u] = DefaultFrag]
                 /\ cur' = [cur EXCEPT ![u] = [seq |-> 8, frag |-> 0]]

SetFrag(u, f, ok) == /\ ok => (u \in Users /\ f >= 2)
                     /\ fs' = IF ok THEN [fs EXCEPT ![u] = f] ELSE fs
                     /\ UNCHANGED cur

Data(u, len, dseq, dfrag, last, complete) ==
    /\ u \in Users
    /\ len <= fs[u]
    /\ IF dseq # cur[u].seq
       THEN dfrag = 0                                   \* a new packet starts at fragment 0
       ELSE dfrag = cur[u].frag \/ dfrag = (cur[u].frag + 1) % FragMod   \* re-send or next
    /\ (last = 1) <=> (complete = 1)                    \* only the final fragment carries the flag
    /\ cur' = [cur EXCEPT ![u] = [seq |-> dseq, frag |-> dfrag]]
    /\ UNCHANGED fs

Dataless(u) == UNCHANGED <<fs, cur>>
Replay == UNCHANGED <<fs, cur>>
MFReset == fs' = [u \in Users |-> DefaultFrag] /\ cur' = [u \in Users |-> [seq |-> 8, frag |-> 0]]
=============================================================================
