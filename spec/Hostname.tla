------------------------------ MODULE Hostname ------------------------------
(* Layer C, property C08: upstream query names are legal DNS names within the   *)
(* configured limit, end in the tunnel domain, carry a non-empty prefix of the   *)
(* payload of exactly the reported length, and the server's extraction yields    *)
(* exactly that prefix.  Names and payloads are sequences of byte values.        *)
EXTENDS Integers, Sequences, FiniteSets
VARIABLE n
C == INSTANCE Codec WITH MaxLen <- 0, ByteSet <- {0}
D == INSTANCE Domain WITH Domains <- <<>>

DOT == 46
Undot(s) == SelectSeq(s, LAMBDA c : c # DOT)
\* a dotted name is a legal DNS name: labels of 1..63 bytes, at most 255 bytes on the wire (length bytes + root)
LegalName(s) == /\ D!NoEmptyLabel(s) /\ D!LabelsShort(s) /\ Len(s) + 2 <= 255

\* e = [L, dom, codec, hdr, pay, paylen, name, n, srvlen, srv]
\*   name   the query name built for payload pay (first min(paylen, 300) bytes logged) with a header of hdr characters
\*   n      the number of payload bytes the builder reports as carried
\*   srvlen/srv  data length and bytes the server-side extraction (dns_encode -> dns_decode -> query_datalen ->
\*          unpack_data) recovered from the emitted query
HostOK(e) ==
    LET dl == D!Match(e.name, e.dom)
        datapart == SubSeq(e.name, e.hdr + 1, dl)
    IN /\ Len(e.name) <= e.L
       /\ LegalName(e.name)
       /\ dl >= e.hdr + 1                                    \* ends in the tunnel domain, data part not empty
       /\ e.srvlen = dl /\ e.srvlenw = dl                   \* also when the server serves the wildcard form of the domain
       /\ e.n >= 1 /\ e.n <= e.paylen
       /\ C!Dec(e.codec, Undot(datapart)) = C!Prefix(e.pay, e.n)
       /\ e.srv = C!Prefix(e.pay, e.n)

\* e = [L, dom, name]: a query the real client put on the wire under hostname limit L
\* (the limit is promised for data chunks, fragment-size probes, pings and version / login / set-fragment-size messages;
\*  the fixed codec-test patterns and the short option / codec-switch / address requests only have to be legal names)
Limited == {"data", "fragprobe", "ping", "version", "login", "setfrag"}
WireOK(e) == /\ (e.kind \in Limited => Len(e.name) <= e.L) /\ LegalName(e.name) /\ D!Match(e.name, e.dom) >= 1

\* e = [dom, name, hdr, codec, srv]: a data query of the real client as the real server received it in a live session, the
\* codec the client is using, and the bytes the server appended to the session's upstream reassembly buffer for it:
\* the server's extraction is the decoding of the data part under the CLIENT's codec
ExtractOK(e) ==
    LET dl == D!Match(e.name, e.dom)
        datapart == SubSeq(e.name, e.hdr + 1, dl)
    IN /\ dl >= e.hdr + 1
       /\ e.srv = C!Dec(e.codec, Undot(datapart))

\* an upstream packet of a real session on a clean path, built to need a given number of chunks with a given number of
\* bytes in the last one (down to a single byte): every chunk's data part was extracted, so the packet came out whole
UpPacketOK(e) == e.written

HInit == n = 0
Spec == HInit /\ [][FALSE]_n
=============================================================================
