------------------------------ MODULE TraceCodec ------------------------------
EXTENDS Codec, TraceBase
CONSTANT STRICT     \* TRUE: also require equality with the reference encoding (binding step, drift only)
VARIABLE l
tvars == <<n, l>>
TInit == CInit /\ l = 1
Ev == TraceLog[l]
IsEvent(e) == l <= TraceLen /\ Ev.e = e /\ l' = l + 1 /\ UNCHANGED n
TEnc == IsEvent("Enc") /\ EncOK(Ev) /\ CaseOK(Ev) /\ (STRICT => EncIsRef(Ev))
TDec == IsEvent("Dec") /\ DecOK(Ev)
TChunks == IsEvent("Chunks") /\ ChunksOK(Ev)
TReset == IsEvent("Reset")
TNext == TEnc \/ TDec \/ TChunks \/ TReset
TraceSpec == TInit /\ [][TNext]_tvars
TraceAccepted ==
    LET d == TLCGet("stats").diameter IN
    /\ PrintT(<<"TRACE_REACHED", d - 1, TraceLen>>)
    /\ d - 1 = TraceLen
=============================================================================
