--------------------------- MODULE TraceMonAnswers ---------------------------
EXTENDS MonAnswers, TraceBase

VARIABLE l
tvars == <<pending, done, l>>
TInit == MAInit /\ l = 1
Ev == TraceLog[l]
IsEvent(e) == l <= TraceLen /\ Ev.e = e /\ l' = l + 1

TRecv == IsEvent("Recv") /\ Recv(Ev.n, Ev.src, Ev.holder, Ev.uid, Ev.id, Ev.qn, Ev.lk, Ev.qt, Ev.tun)
TAns == IsEvent("Ans") /\ Ans(Ev.dst, Ev.id, Ev.qn, Ev.lk, Ev.qt, Ev.hdr)
TStepEnd == IsEvent("StepEnd") /\ StepEnd
TNewSession == IsEvent("NewSession") /\ NewSession(Ev.u)
TReset == IsEvent("Reset") /\ MAReset
\* an emitted non-DNS / question-less datagram on the DNS socket has no enabled action (event "Garbage")

TNext == TRecv \/ TAns \/ TStepEnd \/ TNewSession \/ TReset
TraceSpec == TInit /\ [][TNext]_tvars
TraceAccepted ==
    LET d == TLCGet("stats").diameter IN
    /\ PrintT(<<"TRACE_REACHED", d - 1, TraceLen>>)
    /\ d - 1 = TraceLen
=============================================================================
