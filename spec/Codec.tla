-------------------------------- MODULE Codec --------------------------------
(* Layer C: the four hostname codecs of doc/proto_00000502.txt as TLA+          *)
(* functions on byte sequences (n-bit groups, most significant bit first, last  *)
(* group zero padded; decoding yields floor(bits/8) bytes, unknown characters   *)
(* count as zero) and the predicates of property C07 over call events recorded  *)
(* from the real encoder / decoder entry points (base32_ops ... base128_ops).   *)
EXTENDS Naturals, Sequences, FiniteSets

Range(a, b) == [i \in 1..(b - a + 1) |-> a + i - 1]
LOWER == Range(97, 122)
UPPER == Range(65, 90)
DIGITS == Range(48, 57)
A32 == LOWER \o Range(48, 53)
A64 == LOWER \o UPPER \o <<45>> \o DIGITS \o <<43>>
A64U == LOWER \o UPPER \o <<45>> \o DIGITS \o <<95>>
A128 == LOWER \o UPPER \o DIGITS \o Range(188, 253)

Alpha(c) == CASE c = "b32" -> A32 [] c = "b64" -> A64 [] c = "b64u" -> A64U [] c = "b128" -> A128
Bits(c) == CASE c = "b32" -> 5 [] c = "b64" -> 6 [] c = "b64u" -> 6 [] c = "b128" -> 7
AlphaSet(c) == {Alpha(c)[i] : i \in 1..Len(Alpha(c))}

Pow2(n) == 2 ^ n
\* bit i (0 = most significant bit of the first byte) of a byte sequence, 0 beyond its end
BitAt(d, i) == IF (i \div 8) + 1 > Len(d) THEN 0 ELSE (d[(i \div 8) + 1] \div Pow2(7 - (i % 8))) % 2
RECURSIVE Group(_, _, _, _)
Group(d, from, n, acc) == IF n = 0 THEN acc ELSE Group(d, from + 1, n - 1, 2 * acc + BitAt(d, from))

EncLen(c, n) == ((8 * n) + Bits(c) - 1) \div Bits(c)
DecLen(c, m) == (Bits(c) * m) \div 8
Enc(c, d) == [k \in 1..EncLen(c, Len(d)) |-> Alpha(c)[Group(d, (k - 1) * Bits(c), Bits(c), 0) + 1]]

\* value of a character: position in the alphabet (Base32 also accepts upper case), 0 if illegal
Val(c, ch) == LET a == Alpha(c)
                  ch2 == IF c = "b32" /\ ch >= 65 /\ ch <= 90 THEN ch + 32 ELSE ch
              IN IF \E i \in 1..Len(a) : a[i] = ch2 THEN (CHOOSE i \in 1..Len(a) : a[i] = ch2) - 1 ELSE 0
\* bit i of the digit sequence of a text
TBit(c, t, i) == LET b == Bits(c) IN (Val(c, t[(i \div b) + 1]) \div Pow2(b - 1 - (i % b))) % 2
RECURSIVE TGroup(_, _, _, _, _)
TGroup(c, t, from, n, acc) == IF n = 0 THEN acc ELSE TGroup(c, t, from + 1, n - 1, 2 * acc + TBit(c, t, from))
Dec(c, t) == [m \in 1..DecLen(c, Len(t)) |-> TGroup(c, t, (m - 1) * 8, 8, 0)]

Prefix(s, n) == SubSeq(s, 1, n)
Upper(t) == [i \in 1..Len(t) |-> IF t[i] >= 97 /\ t[i] <= 122 THEN t[i] - 32 ELSE t[i]]

(* ---- C07 predicates over recorded calls ---- *)
\* e = [codec, in, cap, ret, used, out, guard, nul, dec]: encode `in` into a buffer of capacity cap
EncOK(e) ==
    /\ e.guard /\ e.nul                                  \* nothing written past capacity (+ terminator)
    /\ Len(e.out) = e.ret /\ e.ret <= e.cap
    /\ \A i \in 1..Len(e.out) : e.out[i] \in AlphaSet(e.codec)          \* alphabet purity
    /\ e.used <= Len(e.in)
    /\ Dec(e.codec, e.out) = Prefix(e.in, e.used)        \* the emitted text decodes to exactly the reported prefix
    /\ e.dec = Prefix(e.in, e.used)                      \* ... also with the real decoder
    /\ e.cap >= EncLen(e.codec, Len(e.in)) =>            \* enough room: everything consumed, documented ratio
          (e.used = Len(e.in) /\ e.ret = EncLen(e.codec, Len(e.in)))
    /\ (e.cap >= 2 /\ Len(e.in) >= 1) => e.used >= 1     \* progress whenever one byte can fit
EncIsRef(e) == e.used = Len(e.in) => e.out = Enc(e.codec, e.in)         \* (binding) equals the reference encoding

\* e = [codec, text, cap, ret, out, guard]: decode text into a buffer of capacity cap
DecOK(e) ==
    /\ e.guard /\ e.ret <= e.cap /\ Len(e.out) = e.ret
    /\ LET full == Dec(e.codec, e.text) IN
       /\ e.ret <= Len(full)
       /\ e.out = Prefix(full, e.ret)
       /\ e.cap >= Len(full) => e.ret = Len(full)

\* e = [codec, in, cap, parts]: the chunk loop of the fragmenting sender; parts = <<[off, used, dec]>> where off is the
\* sender's own running offset: successive chunks must tile the input (lose nothing, repeat nothing)
ChunksOK(e) == LET ps == e.parts IN
    /\ (Len(e.in) > 0) => Len(ps) >= 1
    /\ \A i \in 1..Len(ps) :
          /\ ps[i].used >= 1
          /\ ps[i].off = (IF i = 1 THEN 0 ELSE ps[i - 1].off + ps[i - 1].used)
          /\ ps[i].dec = SubSeq(e.in, ps[i].off + 1, ps[i].off + ps[i].used)
    /\ (Len(ps) >= 1) => ps[Len(ps)].off + ps[Len(ps)].used = Len(e.in)

\* Base32 decodes case-insensitively
CaseOK(e) == e.codec = "b32" => Dec("b32", Upper(e.out)) = Dec("b32", e.out) /\ e.decupper = e.dec

(* ---- spec-level theorem: the documented format itself has the property (all inputs of <= MaxLen bytes) ---- *)
CONSTANTS MaxLen, ByteSet
Inputs == UNION {[1..n -> ByteSet] : n \in 0..MaxLen}
Codecs == {"b32", "b64", "b64u", "b128"}
RefLossless == \A c \in Codecs : \A d \in Inputs :
    /\ Dec(c, Enc(c, d)) = d
    /\ \A i \in 1..Len(Enc(c, d)) : Enc(c, d)[i] \in AlphaSet(c)
    /\ c = "b32" => Dec(c, Upper(Enc(c, d))) = d
ASSUME RefLossless
VARIABLE n
CInit == n = 0
Spec == CInit /\ [][FALSE]_n
=============================================================================
