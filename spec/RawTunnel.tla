------------------------------ MODULE RawTunnel ------------------------------
(* Layer A: the data plane of a session in RAW UDP mode (src/client.c          *)
(* tunnel_tun -> send_raw_data, read_dns_withq raw branch, the ping on select   *)
(* timeout and - since the repair of F15 - the keep-alive ping an iteration     *)
(* sends first when select() returned with data and the last ping is older than *)
(* the idle interval (time is not modelled: it MAY be sent); src/iodined.c raw_decode -> handle_raw_data / handle_raw_ping,      *)
(* tunnel_tun raw branch -> send_raw).  No fragmentation, no acks, no queue:    *)
(* one datagram carries the whole compressed image - cut to RAWMAX bytes by     *)
(* send_raw() on either side, which the receiver's uncompress() then rejects    *)
(* (assumption A-zlib) - and nothing is ever re-sent.                           *)
EXTENDS Naturals, Sequences, FiniteSets

CONSTANTS UpLens, DnLens,   \* image lengths of the packets offered on the client / server tun
          RAWMAX,           \* 4092: payload bytes that fit send_raw()'s buffer
          MaxLoss, MaxDup

VARIABLES netUp, netDn,     \* frames in flight (sets of records; a duplicating network delivers without removing)
          upNext, dnNext, tunS, tunC, accS, accC, loss, dup, lastact
vars == <<netUp, netDn, upNext, dnNext, tunS, tunC, accS, accC, loss, dup, lastact>>

UpPkt(i) == 1000 + i
DnPkt(i) == 2000 + i
PLen(p) == IF p < 2000 THEN UpLens[p - 1000] ELSE DnLens[p - 2000]
Min(a, b) == IF a < b THEN a ELSE b
Data(p, ser) == [kind |-> "data", p |-> p, len |-> Min(PLen(p), RAWMAX), ser |-> ser]
Ping(ser) == [kind |-> "ping", p |-> 0, len |-> 0, ser |-> ser]
Complete(f) == f.kind = "data" /\ f.p # 0 /\ f.len = PLen(f.p)

\* the handlers as functions: what a program emits and writes for one input
CliOnTun(p, ser) == [out |-> <<Data(p, ser)>>, tunw |-> <<>>]
CliOnTimeout(ser) == [out |-> <<Ping(ser)>>, tunw |-> <<>>]
CliOnFrame(f) == [out |-> <<>>, tunw |-> IF Complete(f) THEN <<f.p>> ELSE <<>>]
SrvOnTun(p, ser) == [out |-> <<Data(p, ser)>>, tunw |-> <<>>]
SrvOnFrame(f, ser) == [out |-> IF f.kind = "ping" THEN <<Ping(ser)>> ELSE <<>>,
                       tunw |-> IF Complete(f) THEN <<f.p>> ELSE <<>>]
ToSet(s) == {s[i] : i \in 1..Len(s)}
\* the keep-alive ping in front of an iteration's handlers (client_tunnel, raw mode)
KeepAlive(ka, ser) == IF ka THEN <<Ping(ser)>> ELSE <<>>

Init == /\ netUp = {} /\ netDn = {} /\ upNext = 1 /\ dnNext = 1
        /\ tunS = <<>> /\ tunC = <<>> /\ accS = <<>> /\ accC = <<>> /\ loss = 0 /\ dup = 0 /\ lastact = "init"
Ser == 0      \* frames carry no identity of their own: equal frames in flight are one element of the set

ACliTun(ka) ==
           /\ upNext <= Len(UpLens)
           /\ LET r == CliOnTun(UpPkt(upNext), Ser) IN netUp' = netUp \cup ToSet(KeepAlive(ka, Ser) \o r.out)
           /\ accS' = Append(accS, UpPkt(upNext)) /\ upNext' = upNext + 1 /\ lastact' = "CliTun"
           /\ UNCHANGED <<netDn, dnNext, tunS, tunC, accC, loss, dup>>
ASrvTun == /\ dnNext <= Len(DnLens)
           /\ LET r == SrvOnTun(DnPkt(dnNext), Ser) IN netDn' = netDn \cup ToSet(r.out)
           /\ accC' = Append(accC, DnPkt(dnNext)) /\ dnNext' = dnNext + 1 /\ lastact' = "SrvTun"
           /\ UNCHANGED <<netUp, upNext, tunS, tunC, accS, loss, dup>>
ASrvRecv(f, keep) == /\ f \in netUp
                     /\ LET r == SrvOnFrame(f, Ser) IN /\ tunS' = tunS \o r.tunw /\ netDn' = netDn \cup ToSet(r.out)
                     /\ netUp' = IF keep THEN netUp ELSE netUp \ {f}
                     /\ dup' = (IF keep THEN dup + 1 ELSE dup) /\ lastact' = "SrvRecv"
                     /\ UNCHANGED <<upNext, dnNext, tunC, accS, accC, loss>>
ACliRecv(f, keep, ka) ==
                     /\ f \in netDn
                     /\ LET r == CliOnFrame(f) IN tunC' = tunC \o r.tunw
                     /\ netDn' = IF keep THEN netDn ELSE netDn \ {f}
                     /\ netUp' = netUp \cup ToSet(KeepAlive(ka, Ser))
                     /\ dup' = (IF keep THEN dup + 1 ELSE dup) /\ lastact' = "CliRecv"
                     /\ UNCHANGED <<upNext, dnNext, tunS, accS, accC, loss>>
ACliTimeout == /\ \A f \in netUp \cup netDn : f.kind # "ping"
               /\ netUp' = netUp \cup ToSet(CliOnTimeout(Ser).out) /\ lastact' = "CliTimeout"
               /\ UNCHANGED <<netDn, upNext, dnNext, tunS, tunC, accS, accC, loss, dup>>
ADrop == /\ loss < MaxLoss
         /\ \/ \E f \in netUp : netUp' = netUp \ {f} /\ UNCHANGED netDn
            \/ \E f \in netDn : netDn' = netDn \ {f} /\ UNCHANGED netUp
         /\ loss' = loss + 1 /\ lastact' = "Drop"
         /\ UNCHANGED <<upNext, dnNext, tunS, tunC, accS, accC, dup>>
Next == \/ (\E ka \in BOOLEAN : ACliTun(ka)) \/ ASrvTun \/ ACliTimeout \/ ADrop
        \/ \E f \in netUp : ASrvRecv(f, FALSE) \/ (dup < MaxDup /\ ASrvRecv(f, TRUE))
        \/ \E f \in netDn, ka \in BOOLEAN : ACliRecv(f, FALSE, ka) \/ (dup < MaxDup /\ ACliRecv(f, TRUE, ka))
Spec == Init /\ [][Next]_vars

\* C01 in raw mode: only packets the peer accepted are written, and only whole ones
Integrity == /\ \A i \in 1..Len(tunS) : \E j \in 1..Len(accS) : tunS[i] = accS[j]
             /\ \A i \in 1..Len(tunC) : \E j \in 1..Len(accC) : tunC[i] = accC[j]
NeverTruncated == /\ \A i \in 1..Len(tunS) : PLen(tunS[i]) <= RAWMAX
                  /\ \A i \in 1..Len(tunC) : PLen(tunC[i]) <= RAWMAX
\* C02 in raw mode (clean path): when nothing is in flight every packet that fits a frame has been written exactly once
Quiet == netUp = {} /\ netDn = {} /\ upNext > Len(UpLens) /\ dnNext > Len(DnLens)
Fits(s) == SelectSeq(s, LAMBDA p : PLen(p) <= RAWMAX)
DoneDelivered == (Quiet /\ loss = 0 /\ dup = 0) =>
                    /\ \A p \in ToSet(Fits(accS)) : Cardinality({i \in 1..Len(tunS) : tunS[i] = p}) = 1
                    /\ \A p \in ToSet(Fits(accC)) : Cardinality({i \in 1..Len(tunC) : tunC[i] = p}) = 1
ProbeNoneWritten == Len(tunS) + Len(tunC) < 3          \* vacuity probe (expected violated)
=============================================================================
