------------------------------- MODULE MonFwd -------------------------------
(* Property monitor for C20.  Observables:                                     *)
(*   Fwd(src, id, nout, outid, sameq)  a query for a name outside the tunnel   *)
(*        domain arrived from src with DNS id `id`; the server emitted nout    *)
(*        datagrams to the local DNS port, the (first) one carrying id outid   *)
(*        and (sameq) the same name and type                                   *)
(*   Reply(id, nsent, to, same)  a reply with this id arrived from the local   *)
(*        DNS port; the server sent nsent datagrams, the (first) one to source *)
(*        `to` (0 = not a requester address), same = its bytes equal the reply *)
EXTENDS Naturals, Sequences, FiniteSets
CONSTANTS RING, Srcs
VARIABLE recent         \* the RING most recent forwards <<src, id>>, oldest first
MFInit == recent = <<>>
Ids == {recent[i][2] : i \in 1..Len(recent)}
Distinct == \A i, j \in 1..Len(recent) : i # j => recent[i][2] # recent[j][2]
Askers(id) == {recent[i][1] : i \in {j \in 1..Len(recent) : recent[j][2] = id}}

Fwd(src, id, nout, outid, sameq) ==
    /\ nout = 1 /\ outid = id /\ sameq
    /\ recent' = LET h == Append(recent, <<src, id>>) IN IF Len(h) > RING THEN Tail(h) ELSE h

Reply(id, nsent, to, same) ==
    /\ nsent <= 1
    /\ nsent = 1 => (same /\ (to \in Srcs => to \in Askers(id)))     \* never to another requester
    /\ (Distinct /\ id \in Ids) => (nsent = 1 /\ {to} = Askers(id))   \* routed back to the asker
    /\ UNCHANGED recent
MFReset == recent' = <<>>
=============================================================================
