----------------------------- MODULE MonClientSafe -----------------------------
(* Property monitor for the functional half of C06.  Observable: one event per  *)
(* generated reply the real client consumed:                                     *)
(*   Reply(matched, tunw, sys, ackchg)                                           *)
(*     matched = the reply carries the id of the query the client is waiting for *)
(*               (handshake) / one of its last three ids (tunnel) and a question *)
(*               whose first character fits; decided by the generator            *)
(*     tunw    = packets the client wrote to its tun device while handling it    *)
(*     sys     = system() calls made while handling it                           *)
(*     ackchg  = a query emitted while handling it carries other seq/frag/ack    *)
(*               fields than the client's previous query                         *)
(* Replies that do not match must be ignored: no tun write, no command, no       *)
(* change of the stream positions.  Sanitizer aborts and hangs are events        *)
(* without an enabled action; a clean exit() is allowed.                         *)
EXTENDS Naturals
VARIABLE n
MCInit == n = 0
Reply(matched, tunw, sys, ackchg) == /\ ~matched => (tunw = 0 /\ sys = 0 /\ ~ackchg)
                                     /\ n' = n + 1
MCReset == n' = 0
=============================================================================
