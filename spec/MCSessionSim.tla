---------------------------- MODULE MCSessionSim ----------------------------
(* History generator: biased random walks through Session.tla for TLC -simulate. *)
(* `focus` selects the category of the NEXT message; because every step chooses  *)
(* focus' freely, TLC's uniform choice among successor states picks a category   *)
(* uniformly and then a message uniformly inside it.  `hist` is the message      *)
(* history, printed as JSON when it reaches HLEN.                                *)
EXTENDS Session, Json

CONSTANTS HLEN
VARIABLES hist, focus, done

Cats == {"new", "login_good", "login_any", "owner_cmd", "any_cmd", "raw_good", "raw_any", "raw_owner",
         "tun", "tick_small", "tick_edge", "opaque", "owner_data", "login_near", "spoof_data", "login_other", "owner_c2c"}

ActiveSlots == {u \in Slots : active[u]}

Cat(f) ==
    CASE f = "new" -> \E src \in Srcs : Version(src)
      [] f = "login_good" -> \E u \in ActiveSlots : Login(host[u], u, seed[u])
      [] f = "login_near" -> \E u \in ActiveSlots : Login(host[u], u, 0)      \* wrong response from the right address
      \* the (sniffed) response to ANOTHER live session's current challenge, from the session's own address
      [] f = "login_other" -> \E u \in ActiveSlots : \E v \in ActiveSlots \ {u} : Login(host[u], u, seed[v])
      [] f = "spoof_data" -> \E u \in ActiveSlots : \E src \in Srcs \ {host[u]} : \E d \in Dests : Data(src, u, d) \/ Ping(src, u)
      [] f = "login_any" -> \E src \in Srcs, uid \in Uids, cl \in Claims : Login(src, uid, cl)
      [] f = "owner_cmd" -> \E u \in ActiveSlots :
              \/ IpReq(host[u], u) \/ Ping(host[u], u)
              \/ \E c \in CodecArgs : SwitchCodec(host[u], u, c)
              \/ \E o \in OptArgs : Options(host[u], u, o)
              \/ \E f2 \in FragArgs : SetFrag(host[u], u, f2) \/ FragProbe(host[u], u, f2)
      [] f = "owner_data" -> \E u \in ActiveSlots : \E d \in Dests : Data(host[u], u, d) \/ Ping(host[u], u)
      \* client-to-client traffic between live sessions (the target may be busy: a packet in flight, others waiting)
      [] f = "owner_c2c" -> \E u \in ActiveSlots : \E v \in ActiveSlots \ {u} : Data(host[u], u, v)
      [] f = "any_cmd" -> \E src \in Srcs, uid \in Uids :
              \/ IpReq(src, uid) \/ Ping(src, uid)
              \/ \E c \in CodecArgs : SwitchCodec(src, uid, c)
              \/ \E o \in OptArgs : Options(src, uid, o)
              \/ \E f2 \in FragArgs : SetFrag(src, uid, f2) \/ FragProbe(src, uid, f2)
              \/ \E d \in Dests : Data(src, uid, d)
      [] f = "raw_good" -> \E src \in Srcs, u \in ActiveSlots : RawLogin(src, u, seed[u])
      [] f = "raw_any" -> \E src \in Srcs, uid \in Uids :
              \/ \E cl \in Claims : RawLogin(src, uid, cl)
              \/ RawPing(src, uid) \/ \E d \in Dests : RawData(src, uid, d)
      [] f = "raw_owner" -> \E u \in ActiveSlots : RawPing(host[u], u) \/ \E d \in Dests : RawData(host[u], u, d)
      [] f = "tun" -> \E d \in Slots : TunArrival(d)
      [] f = "tick_small" -> \E dt \in {1, 3, 10} : Tick(dt)
      [] f = "tick_edge" -> \E dt \in {29, 30, 31, 58, 59, 60, 61} : Tick(dt)
      [] f = "opaque" -> \E src \in Srcs : Opaque(src)

SimInit == Init /\ hist = <<>> /\ focus = "new" /\ done = FALSE
SimNext == \/ /\ Len(hist) < HLEN /\ ~done
              /\ \/ Cat(focus)
                 \/ (~ENABLED Cat(focus) /\ \E src \in Srcs : Version(src))
              /\ hist' = Append(hist, msg')
              /\ focus' \in Cats
              /\ done' = FALSE
           \/ /\ Len(hist) = HLEN /\ ~done
              /\ done' = TRUE
              /\ UNCHANGED <<vars, hist, focus>>
SimSpec == SimInit /\ [][SimNext]_<<vars, hist, focus, done>>

Emit == ~done \/ PrintT(<<"HIST", ToJson(hist)>>)
=============================================================================
