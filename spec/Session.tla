------------------------------- MODULE Session -------------------------------
(* Layer A: implementation-shaped specification of the iodined CONTROL PLANE    *)
(* (src/iodined.c handle_null_request command dispatcher, the check_*user*      *)
(* guards, handle_raw_login/data/ping, handle_full_packet routing, tunnel_tun    *)
(* routing, src/user.c find_available_user / find_user_by_ip) for USERS slots    *)
(* and an adversary that sends every command with every userid from every       *)
(* source, interleaved with the passage of time across the 60 s expiry.          *)
(*                                                                               *)
(* One action per command letter / raw command / tun arrival / clock advance.    *)
(* Every action records what the step did on whose behalf in `eff` and the class *)
(* of the reply in `reply`; the listed properties (C03, C04) are action          *)
(* properties over these.  The data plane is abstracted to "single-fragment"     *)
(* packets: every packet fits one upstream query and one downstream fragment     *)
(* (the fragment/ack machinery is Tunnel.tla's subject), so a packet is either   *)
(* pending in out[u] or delivered.                                               *)
(*                                                                               *)
(* Time: age[u] = min(now - last_pkt, EXP+1).  The code has three comparisons:   *)
(*   check_user_and_ip   refuses when last+60 <  now   (live iff age <= EXP)     *)
(*   find_user_by_ip     finds   when last+60 >  now   (live iff age <  EXP)     *)
(*   find_available_user reuses  when last+60 <  now   (free iff age >  EXP)     *)
EXTENDS Naturals, Sequences, FiniteSets, TLC

CONSTANTS
    USERS,      \* number of session slots (created_users)
    Srcs,       \* source addresses (IP identities) of requesters
    EXP,        \* 60
    CheckIp,    \* BOOLEAN: source checking on (default) / off (-c)
    Dts,        \* clock advances the environment may make
    OUTCAP,     \* 1 + OUTPACKETQ_LEN = 5: packets a DNS-mode session can have pending
    MaxSeeds,   \* bound on the number of challenges issued (state constraint only)
    CodecArgs, OptArgs, FragArgs    \* argument values the adversary tries for S / O / N,R

Slots == 0..(USERS - 1)
Ext == USERS            \* destination "outside the tunnel" (written to the server tun)
Tun == USERS + 1        \* origin "read from the server tun"
NoSrc == 0

VARIABLES
    active, authed, araw, locked,   \* users[u].active / authenticated / authenticated_raw / options_locked
    seed,                           \* users[u].seed (challenge identity; 0 = never issued)
    age,                            \* min(now - users[u].last_pkt, EXP + 1)
    host,                           \* users[u].host (source the session is bound to)
    conn,                           \* "dns" | "raw"
    lazy, frag, enc, denc,          \* users[u].lazy / fragsize / encoder / downenc
    held,                           \* users[u].q.id != 0 (a lazy query is being held)
    qfrom,                          \* users[u].q.from
    out,                            \* downstream packets pending for u (outpacket + outpacketq), oldest first
    nseed,                          \* challenges issued so far
    answered,                       \* ghost: slot's CURRENT challenge was answered with the right response
    eff,                            \* effects of the last step (set of records)
    reply,                          \* reply class of the last step
    msg                             \* the request handled in the last step

svars == <<active, authed, araw, locked, seed, age, host, conn, lazy, frag, enc, denc, held, qfrom, out>>
vars == <<svars, nseed, answered, eff, reply, msg>>

Pkt(o, d) == [o |-> o, d |-> d]         \* packet with origin o and destination d (slot, Ext)

Init ==
    /\ active = [u \in Slots |-> FALSE] /\ authed = [u \in Slots |-> FALSE]
    /\ araw = [u \in Slots |-> FALSE] /\ locked = [u \in Slots |-> FALSE]
    /\ seed = [u \in Slots |-> 0] /\ age = [u \in Slots |-> 0]
    /\ host = [u \in Slots |-> NoSrc] /\ conn = [u \in Slots |-> "dns"]
    /\ lazy = [u \in Slots |-> FALSE] /\ frag = [u \in Slots |-> 100]
    /\ enc = [u \in Slots |-> "b32"] /\ denc = [u \in Slots |-> "T"]
    /\ held = [u \in Slots |-> FALSE] /\ qfrom = [u \in Slots |-> NoSrc]
    /\ out = [u \in Slots |-> <<>>]
    /\ nseed = 0 /\ answered = [u \in Slots |-> FALSE]
    /\ eff = {} /\ reply = "none" /\ msg = [c |-> "init"]

-----------------------------------------------------------------------------
(* guards, exactly as in the code *)
ValidUser(u, src) == /\ u \in Slots /\ active[u] /\ age[u] <= EXP
                     /\ (CheckIp => host[u] = src)               \* check_user_and_ip
Auth(u, src) == ValidUser(u, src) /\ authed[u]                    \* check_authenticated_user_and_ip
AuthOpt(u, src) == Auth(u, src) /\ (CheckIp \/ ~locked[u])        \* ..._and_options (lock only looked at with -c)
Owner(d) == IF \E u \in Slots : u = d /\ active[u] /\ authed[u] /\ age[u] < EXP
            THEN d ELSE Ext                                       \* find_user_by_ip (tun_ip of slot u is address u)
Free(u) == ~active[u] \/ age[u] > EXP                              \* find_available_user

Touch(u) == age' = [age EXCEPT ![u] = 0]

-----------------------------------------------------------------------------
(* downstream dispatch for single-fragment packets.  A "cfg" is the triple      *)
(* [out, held, eff] threaded through one handler invocation.                    *)
Cfg0 == [out |-> out, held |-> held, eff |-> {}]

\* send_chunk_or_dataless() on the held query of u: carries the oldest pending packet if any
SendHeld(c, u, to) ==
    LET has == c.out[u] # <<>>
        e == IF has THEN {[k |-> "Down", u |-> u, p |-> Head(c.out[u]), to |-> to]} ELSE {}
    IN [cfg |-> [out |-> IF has THEN [c.out EXCEPT ![u] = Tail(@)] ELSE c.out,
                 held |-> [c.held EXCEPT ![u] = FALSE],
                 eff |-> c.eff \cup e],
        again |-> has /\ Len(c.out[u]) > 1]

\* a packet becomes pending for DNS-mode session v / is sent at once to raw-mode session v
Enqueue(c, v, p, qf) ==
    IF conn[v] = "raw"
    THEN [c EXCEPT !.eff = @ \cup {[k |-> "Down", u |-> v, p |-> p, to |-> qf[v]]}]
    ELSE IF c.out[v] = <<>>
         THEN LET c1 == [c EXCEPT !.out[v] = <<p>>]
              IN IF c1.held[v] THEN SendHeld(c1, v, qf[v]).cfg ELSE c1
         ELSE IF Len(c.out[v]) < OUTCAP THEN [c EXCEPT !.out[v] = Append(@, p)] ELSE c

\* handle_full_packet(): complete upstream packet p received on behalf of session u
FullPacket(c, u, p, qf) ==
    LET v == Owner(p.d)
    IN IF v = Ext THEN [c EXCEPT !.eff = @ \cup {[k |-> "TunWrite", u |-> u, p |-> p]}]
       ELSE [Enqueue(c, v, p, qf) EXCEPT !.eff = @ \cup {[k |-> "Forward", u |-> u, v |-> v, p |-> p]}]

Commit(c) == out' = c.out /\ held' = c.held /\ eff' = c.eff

-----------------------------------------------------------------------------
(* DNS-mode commands *)

Refuse(r) == /\ reply' = r /\ eff' = {}
             /\ UNCHANGED <<svars, nseed, answered>>

Version(src) ==
    /\ msg' = [c |-> "V", src |-> src]
    /\ IF \E u \in Slots : Free(u)
       THEN LET u == CHOOSE u \in Slots : Free(u) /\ \A w \in Slots : Free(w) => u <= w IN
            /\ active' = [active EXCEPT ![u] = TRUE]
            /\ authed' = [authed EXCEPT ![u] = FALSE]
            /\ araw' = [araw EXCEPT ![u] = FALSE]
            /\ locked' = [locked EXCEPT ![u] = FALSE]
            /\ seed' = [seed EXCEPT ![u] = nseed + 1]
            /\ nseed' = nseed + 1
            /\ Touch(u)
            /\ host' = [host EXCEPT ![u] = src]
            /\ conn' = [conn EXCEPT ![u] = "dns"]
            /\ lazy' = [lazy EXCEPT ![u] = FALSE]
            /\ frag' = [frag EXCEPT ![u] = 100]
            /\ enc' = [enc EXCEPT ![u] = "b32"]
            /\ denc' = [denc EXCEPT ![u] = "T"]
            /\ held' = [held EXCEPT ![u] = FALSE]
            /\ qfrom' = [qfrom EXCEPT ![u] = src]
            /\ out' = [out EXCEPT ![u] = <<>>]
            /\ answered' = [answered EXCEPT ![u] = FALSE]
            /\ eff' = {[k |-> "NewSession", u |-> u]}
            /\ reply' = "VACK"
       ELSE Refuse("VFUL")

\* claim = identity of the challenge the 16 response bytes were computed for (0 = garbage)
Login(src, uid, claim) ==
    /\ msg' = [c |-> "L", src |-> src, uid |-> uid, claim |-> claim]
    /\ answered' = IF uid \in Slots /\ active[uid] /\ claim # 0 /\ claim = seed[uid]
                   THEN [answered EXCEPT ![uid] = TRUE] ELSE answered
    /\ IF ~ValidUser(uid, src)
       THEN /\ reply' = "BADIP" /\ eff' = {} /\ UNCHANGED <<svars, nseed>>
       ELSE /\ Touch(uid)
            /\ IF claim # 0 /\ claim = seed[uid]
               THEN authed' = [authed EXCEPT ![uid] = TRUE] /\ reply' = "LACK"
               ELSE UNCHANGED authed /\ reply' = "LNAK"
            /\ eff' = {}
            /\ UNCHANGED <<active, araw, locked, seed, host, conn, lazy, frag, enc, denc, held, qfrom, out, nseed>>

IpReq(src, uid) ==
    /\ msg' = [c |-> "I", src |-> src, uid |-> uid]
    /\ IF Auth(uid, src)
       THEN /\ reply' = "I" /\ eff' = {[k |-> "Disclose", u |-> uid]}
            /\ UNCHANGED <<svars, nseed, answered>>
       ELSE Refuse("BADIP")

Codecs == {"b32", "b64", "b64u", "b128"}
SwitchCodec(src, uid, c) ==            \* c \in Codecs \cup {"bad"}
    /\ msg' = [c |-> "S", src |-> src, uid |-> uid, arg |-> c]
    /\ IF AuthOpt(uid, src)
       THEN IF c \in Codecs
            THEN /\ enc' = [enc EXCEPT ![uid] = c] /\ reply' = "OK"
                 /\ eff' = {[k |-> "Settings", u |-> uid]}
                 /\ UNCHANGED <<active, authed, araw, locked, seed, age, host, conn, lazy, frag, denc, held, qfrom, out, nseed, answered>>
            ELSE Refuse("BADCODEC")
       ELSE Refuse("BADIP")

DownOpts == {"T", "S", "U", "V", "R"}
Options(src, uid, o) ==                \* o \in DownOpts \cup {"L", "I", "bad"}
    /\ msg' = [c |-> "O", src |-> src, uid |-> uid, arg |-> o]
    /\ IF AuthOpt(uid, src)
       THEN IF o \in DownOpts \cup {"L", "I"}
            THEN /\ denc' = IF o \in DownOpts THEN [denc EXCEPT ![uid] = o] ELSE denc
                 /\ lazy' = IF o = "L" THEN [lazy EXCEPT ![uid] = TRUE]
                            ELSE IF o = "I" THEN [lazy EXCEPT ![uid] = FALSE] ELSE lazy
                 /\ reply' = "OK" /\ eff' = {[k |-> "Settings", u |-> uid]}
                 /\ UNCHANGED <<active, authed, araw, locked, seed, age, host, conn, frag, enc, held, qfrom, out, nseed, answered>>
            ELSE Refuse("BADCODEC")
       ELSE Refuse("BADIP")

SetFrag(src, uid, f) ==
    /\ msg' = [c |-> "N", src |-> src, uid |-> uid, arg |-> f]
    /\ IF AuthOpt(uid, src)
       THEN IF f >= 2
            THEN /\ frag' = [frag EXCEPT ![uid] = f] /\ locked' = [locked EXCEPT ![uid] = TRUE]
                 /\ reply' = "OK" /\ eff' = {[k |-> "Settings", u |-> uid]}
                 /\ UNCHANGED <<active, authed, araw, seed, age, host, conn, lazy, enc, denc, held, qfrom, out, nseed, answered>>
            ELSE Refuse("BADFRAG")
       ELSE Refuse("BADIP")

FragProbe(src, uid, f) ==
    /\ msg' = [c |-> "R", src |-> src, uid |-> uid, arg |-> f]
    /\ IF Auth(uid, src) THEN Refuse(IF f >= 2 THEN "PROBE" ELSE "BADFRAG")
       ELSE Refuse("BADIP")

\* 'P' branch (A.3 of the design document), single-fragment packets
Ping(src, uid) ==
    /\ msg' = [c |-> "P", src |-> src, uid |-> uid]
    /\ IF ~Auth(uid, src) THEN Refuse("BADIP")
       ELSE LET r1 == IF held[uid] THEN SendHeld(Cfg0, uid, qfrom[uid])
                      ELSE [cfg |-> Cfg0, again |-> TRUE]
                did == held[uid] /\ ~r1.again
                c2 == [r1.cfg EXCEPT !.held[uid] = TRUE]
                c3 == IF (~did /\ c2.out[uid] # <<>>) \/ ~lazy[uid]
                      THEN SendHeld(c2, uid, src).cfg ELSE c2
            IN /\ Commit(c3) /\ Touch(uid)
               /\ qfrom' = [qfrom EXCEPT ![uid] = src]
               /\ reply' = "DATA"
               /\ UNCHANGED <<active, authed, araw, locked, seed, host, conn, lazy, frag, enc, denc, nseed, answered>>

\* data branch (A.4) for a query that carries one complete upstream packet with destination d
Data(src, uid, d) ==
    /\ msg' = [c |-> "D", src |-> src, uid |-> uid, arg |-> d]
    /\ IF ~Auth(uid, src) THEN Refuse("BADIP")
       ELSE LET c1 == FullPacket(Cfg0, uid, Pkt(uid, d), qfrom)
                sendold == c1.held[uid] /\ (c1.out[uid] # <<>> \/ ~lazy[uid])
                r2 == IF sendold THEN SendHeld(c1, uid, qfrom[uid]) ELSE [cfg |-> c1, again |-> FALSE]
                \* held but not sent: the old query moves to q_sendrealsoon and is answered (dataless) by the sweep
                did == c1.held[uid] /\ ~(sendold /\ r2.again)
                c3 == [r2.cfg EXCEPT !.held[uid] = TRUE]
                c4 == IF ~did \/ ~lazy[uid] THEN SendHeld(c3, uid, src).cfg ELSE c3
            IN /\ Commit(c4) /\ Touch(uid)
               /\ qfrom' = [qfrom EXCEPT ![uid] = src]
               /\ reply' = "DATA"
               /\ UNCHANGED <<active, authed, araw, locked, seed, host, conn, lazy, frag, enc, denc, nseed, answered>>

-----------------------------------------------------------------------------
(* raw UDP mode *)

\* claim = identity of the challenge whose successor (seed+1) the 16 bytes were computed for
RawLogin(src, uid, claim) ==
    /\ msg' = [c |-> "RL", src |-> src, uid |-> uid, claim |-> claim]
    /\ IF uid \in Slots /\ active[uid] /\ authed[uid] /\ age[uid] <= EXP /\ claim # 0 /\ claim = seed[uid]
       THEN /\ Touch(uid)
            /\ host' = [host EXCEPT ![uid] = src]
            /\ qfrom' = [qfrom EXCEPT ![uid] = src]
            /\ conn' = [conn EXCEPT ![uid] = "raw"]
            /\ araw' = [araw EXCEPT ![uid] = TRUE]
            /\ eff' = {[k |-> "SwitchRaw", u |-> uid]} /\ reply' = "RAWLOGIN"
            /\ UNCHANGED <<active, authed, locked, seed, lazy, frag, enc, denc, held, out, nseed, answered>>
       ELSE Refuse("none")

RawData(src, uid, d) ==
    /\ msg' = [c |-> "RD", src |-> src, uid |-> uid, arg |-> d]
    /\ IF Auth(uid, src) /\ araw[uid]
       \* users[uid].q is overwritten BEFORE handle_full_packet() in the raw path
       THEN LET c1 == FullPacket(Cfg0, uid, Pkt(uid, d), [qfrom EXCEPT ![uid] = src])
            IN /\ Commit(c1) /\ Touch(uid)
               /\ qfrom' = [qfrom EXCEPT ![uid] = src]
               /\ reply' = "none"
               /\ UNCHANGED <<active, authed, araw, locked, seed, host, conn, lazy, frag, enc, denc, nseed, answered>>
       ELSE Refuse("none")

RawPing(src, uid) ==
    /\ msg' = [c |-> "RP", src |-> src, uid |-> uid]
    /\ IF Auth(uid, src) /\ araw[uid]
       THEN /\ Touch(uid) /\ qfrom' = [qfrom EXCEPT ![uid] = src]
            /\ reply' = "RAWPING" /\ eff' = {}
            /\ UNCHANGED <<active, authed, araw, locked, seed, host, conn, lazy, frag, enc, denc, held, out, nseed, answered>>
       ELSE Refuse("none")

-----------------------------------------------------------------------------
(* environment *)

\* tun back-pressure (all_users_waiting_to_send): the server's select loop reads its tun device only while some live
\* session can take another packet - a raw-mode session always can, a DNS-mode one while nothing waits in its queue
\* (the packet in flight does not count).  The fourth comparison with the clock: last+60 > now (counts iff age < EXP).
CanTake(u) == active[u] /\ age[u] < EXP /\ (conn[u] = "raw" \/ Len(out[u]) <= 1)
TunPolled == \E u \in Slots : CanTake(u)

\* a packet for tunnel address d is read from the server's tun device
TunArrival(d) ==
    /\ msg' = [c |-> "T", arg |-> d]
    /\ LET v == Owner(d)
           c1 == IF v = Ext THEN Cfg0 ELSE Enqueue(Cfg0, v, Pkt(Tun, d), qfrom)
       IN Commit(c1)
    /\ reply' = "none"
    /\ UNCHANGED <<active, authed, araw, locked, seed, age, host, conn, lazy, frag, enc, denc, qfrom, nseed, answered>>

Tick(dt) ==
    /\ msg' = [c |-> "Tick", arg |-> dt]
    /\ age' = [u \in Slots |-> IF age[u] + dt > EXP THEN EXP + 1 ELSE age[u] + dt]
    /\ eff' = {} /\ reply' = "none"
    /\ UNCHANGED <<active, authed, araw, locked, seed, host, conn, lazy, frag, enc, denc, held, qfrom, out, nseed, answered>>

\* a datagram that is not a well-formed tunnel request (C05): the server parses it and drops it,
\* or at most treats it like a request it would also accept from that source
Opaque(src) ==
    /\ msg' = [c |-> "X", src |-> src]
    /\ Refuse("none")

Uids == (0..USERS) \cup {15}          \* in range, first out of range, and the largest a nibble can carry
Dests == Slots \cup {Ext}
Claims == 0..MaxSeeds

Next ==
    \/ \E src \in Srcs : Version(src) \/ Opaque(src)
    \/ \E src \in Srcs, uid \in Uids :
          \/ \E cl \in Claims : Login(src, uid, cl) \/ RawLogin(src, uid, cl)
          \/ IpReq(src, uid) \/ Ping(src, uid) \/ RawPing(src, uid)
          \/ \E c \in CodecArgs : SwitchCodec(src, uid, c)
          \/ \E o \in OptArgs : Options(src, uid, o)
          \/ \E f \in FragArgs : SetFrag(src, uid, f) \/ FragProbe(src, uid, f)
          \/ \E d \in Dests : Data(src, uid, d) \/ RawData(src, uid, d)
    \/ \E d \in Slots : TunArrival(d)
    \/ \E dt \in Dts : Tick(dt)

Spec == Init /\ [][Next]_vars
\* eff / reply / msg are functions of (previous state, action) and never read: hide them from the fingerprint
StateView == <<svars, nseed, answered>>

-----------------------------------------------------------------------------
(* ------------------------------ properties ------------------------------ *)

TypeOK == /\ \A u \in Slots : Len(out[u]) <= OUTCAP /\ age[u] \in 0..(EXP + 1)
          /\ nseed \in Nat

\* C03 --------------------------------------------------------------------
Privileged == {"TunWrite", "Forward", "Disclose", "Settings", "SwitchRaw"}
\* every privileged effect is on behalf of a session that answered its CURRENT challenge
PrivilegedOnlyIfAnswered ==
    [][\A e \in eff' : e.k \in Privileged => (e.u \in Slots /\ answered'[e.u])]_vars
AuthedImpliesAnswered == \A u \in Slots : (active[u] /\ authed[u]) => answered[u]
RawImpliesAuthed == \A u \in Slots : (active[u] /\ araw[u]) => authed[u]

\* C04 --------------------------------------------------------------------
DnsCmds == {"L", "I", "S", "O", "N", "R", "P", "D"}
SlotState(u) == <<active[u], authed[u], araw[u], locked[u], seed[u], age[u], host[u], conn[u], lazy[u],
                  frag[u], enc[u], denc[u], held[u], qfrom[u], out[u]>>
SlotStateN(u) == <<active'[u], authed'[u], araw'[u], locked'[u], seed'[u], age'[u], host'[u], conn'[u], lazy'[u],
                   frag'[u], enc'[u], denc'[u], held'[u], qfrom'[u], out'[u]>>
\* a DNS-mode request naming u from another address than the one bound to u changes nothing for u
SpoofRefused ==
    [][(CheckIp /\ msg'.c \in DnsCmds /\ msg'.uid \in Slots /\ active[msg'.uid]
        /\ msg'.src # host[msg'.uid])
       => (/\ SlotStateN(msg'.uid) = SlotState(msg'.uid)
           /\ reply' = "BADIP"
           /\ \A e \in eff' : e.u # msg'.uid)]_vars
\* only a raw login proving knowledge of the password rebinds a session
RebindOnlyByRawLogin ==
    [][\A u \in Slots : (active[u] /\ active'[u] /\ seed'[u] = seed[u] /\ host'[u] # host[u])
                          => (msg'.c = "RL" /\ msg'.uid = u /\ msg'.claim = seed[u] /\ authed[u])]_vars
\* downstream payload for address d goes only to the live logged-in session that owns d, at its bound address
Routing ==
    [][\A e \in eff' : e.k = "Down" =>
          /\ e.p.d = e.u /\ active[e.u] /\ authed[e.u]
          /\ CheckIp => e.to = host'[e.u]]_vars
\* forwarding between clients and tun delivery only towards a live owner
ForwardOnlyToOwner ==
    [][\A e \in eff' : e.k = "Forward" => (e.p.d = e.v /\ active[e.v] /\ authed[e.v] /\ age[e.v] < EXP)]_vars
\* a version request never takes over a slot that was active within the last EXP seconds
NoTakeover ==
    [][\A e \in eff' : e.k = "NewSession" => (~active[e.u] \/ age[e.u] > EXP)]_vars
\* a session silent for more than EXP seconds is refused ...
ExpiredRefused ==
    [][(msg'.c \in DnsCmds \cup {"RL", "RD", "RP"} /\ msg'.uid \in Slots /\ age[msg'.uid] > EXP)
       => (reply' \in {"BADIP", "none"} /\ \A e \in eff' : e.k \notin Privileged \cup {"Down"} \/ e.u # msg'.uid)]_vars
\* ... and its slot becomes reusable
ExpiredReusable ==
    [][(msg'.c = "V" /\ \E u \in Slots : active[u] /\ age[u] > EXP) => reply' = "VACK"]_vars

\* C18 (lookup half): looking up a tunnel address finds exactly the live logged-in session that owns it
LookupExact == \A d \in Slots : Owner(d) = d <=> (active[d] /\ authed[d] /\ age[d] < EXP)
=============================================================================
