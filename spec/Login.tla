-------------------------------- MODULE Login --------------------------------
(* Layer C, property C19: the login response of protocol 0x00000502 as the      *)
(* protocol document states it: MD5 of the first 32 bytes of the zero-padded    *)
(* password XORed with eight big-endian repetitions of the 32-bit challenge.    *)
(* Challenges are carried as four octets (TLC integers are 32-bit signed).      *)
EXTENDS MD5

Pad32(pw) == [i \in 1..32 |-> IF i <= Len(pw) THEN pw[i] ELSE 0]
\* challenge c (octets, big endian) plus delta in {0, 1, -1} modulo 2^32
Shift(c, delta) ==
    LET w == <<c[1] * 256 + c[2], c[3] * 256 + c[4]>>
        r == IF delta = 0 THEN w ELSE IF delta = 1 THEN Add(w, <<0, 1>>) ELSE Add(w, <<65535, 65535>>)
    IN <<r[1] \div 256, r[1] % 256, r[2] \div 256, r[2] % 256>>
Response(pw, c) == MD5([i \in 1..32 |-> Pad32(pw)[i] ^^ c[((i - 1) % 4) + 1]])

\* call event of login_calculate(): [pw, seed (4 octets), out (16 bytes)]
LoginOK(e) == e.out = Response(e.pw, e.seed)
\* wire event: [pw, seed, delta, out]: bytes 1..16 of the client's login message (delta 0), of its raw login
\* frame (delta 1), of the server's raw login reply (delta 2, meaning -1)
WireOK(e) == e.out = Response(e.pw, Shift(e.seed, e.delta))
\* [out1, out2, same]: the same call with a password byte at position >= 32 changed gives the same response,
\* with one of the first 32 bytes or the challenge changed a different one
DiffOK(e) == (e.same <=> e.out1 = e.out2)

ASSUME Response(<<>>, <<0, 0, 0, 0>>) = MD5([i \in 1..32 |-> 0])
ASSUME Shift(<<255, 255, 255, 255>>, 1) = <<0, 0, 0, 0>> /\ Shift(<<0, 0, 0, 0>>, 2) = <<255, 255, 255, 255>>
       /\ Shift(<<0, 0, 255, 255>>, 1) = <<0, 1, 0, 0>>
VARIABLE n
LInit == n = 0
Spec == LInit /\ [][FALSE]_n
=============================================================================
