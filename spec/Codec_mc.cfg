SPECIFICATION Spec
CONSTANTS
  MaxLen = 2
  ByteSet = {0, 1, 2, 7, 8, 15, 16, 31, 32, 63, 64, 65, 97, 127, 128, 129, 187, 188, 191, 192, 223, 224, 240, 252, 253, 254, 255}
CHECK_DEADLOCK FALSE
