SPECIFICATION Spec
CONSTANTS
  USERS = 2
  Srcs = {1, 2}
  EXP = 2
  CheckIp = TRUE
  Dts = {1, 2}
  OUTCAP = 1
  MaxSeeds = 2
  CodecArgs = {"b64"}
  OptArgs = {"L", "bad"}
  FragArgs = {1, 60}
CONSTRAINT SeedBound
CONSTANT Uids <- QuickUids
INVARIANTS
  ProbeNoSpoofRefused
CHECK_DEADLOCK FALSE
