--------------------------- MODULE TraceNegotiation ---------------------------
(* Layer A binding for C11: every recorded real handshake settles on what       *)
(* Negotiation.tla predicts for that relay (drift only, never a violation).     *)
EXTENDS Negotiation, TraceBase
OneRelay == {[qcase |-> "keep", q8 |-> "clean", qpunct |-> "keep", acase |-> "keep", a8 |-> "clean", apunct |-> "keep", first |-> 1, limit |-> 100, edns |-> TRUE]}
VARIABLE l
tvars == <<vars, l>>
TInit == /\ relay \in OneRelay /\ forcedT = "auto" /\ forcedO = "auto" /\ pc = "qtype" /\ qtype = "none"
         /\ upenc = "b32" /\ downenc = "T" /\ frag = 0 /\ ok = FALSE /\ l = 1
Ev == TraceLog[l]
IsEvent(e) == l <= TraceLen /\ Ev.e = e /\ l' = l + 1 /\ UNCHANGED vars
TNeg == IsEvent("Neg") /\ NegMatches(Ev)
TReset == IsEvent("Reset")
TNext == TNeg \/ TReset
TraceSpec == TInit /\ [][TNext]_tvars
TraceAccepted ==
    LET d == TLCGet("stats").diameter IN
    /\ PrintT(<<"TRACE_REACHED", d - 1, TraceLen>>)
    /\ d - 1 = TraceLen
=============================================================================
