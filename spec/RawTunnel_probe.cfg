SPECIFICATION Spec
CONSTANTS
  UpLens <- L3
  DnLens <- L2
  RAWMAX = 4092
  MaxLoss = 2
  MaxDup = 2
INVARIANTS
  ProbeNoneWritten
CHECK_DEADLOCK FALSE
