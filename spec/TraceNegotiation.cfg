SPECIFICATION TraceSpec
CONSTANTS
  PatternHasPlus = FALSE
  MAXF = 12
POSTCONDITION TraceAccepted
CHECK_DEADLOCK FALSE
