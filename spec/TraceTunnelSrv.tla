--------------------------- MODULE TraceTunnelSrv ---------------------------
(* Layer A binding of the data plane, server half: every step of the real       *)
(* iodined's event loop in a simulated session (a ping or data query read, a    *)
(* packet read from the tun device, a 20 ms sweep) must be a step of            *)
(* Tunnel.tla's server functions (SrvPing / SrvData / SrvTun / Sweep) from the  *)
(* same state, producing the same answers (id, sequence/fragment numbers, last   *)
(* flag, payload length, suppression) and the same users[] projection            *)
(* (reassembly position, outpacket position, re-send counter, queue length,      *)
(* held and send-real-soon queries with their remembered duplicates).           *)
(* Drift only - never a violation.  The first line of the trace is a Config      *)
(* record (fragment size, lazy mode, compressed lengths of the offered packets). *)
EXTENDS Tunnel, TraceBase

Cfg == TraceLog[1]
TrUpLens == Cfg.uplens
TrDnLens == Cfg.dnlens
TrFrag == Cfg.fragsize
TrLazy == Cfg.lazy
\* packet p = 100000 * index (upstream) / 100000 * (100 + index) (downstream); unit k of its image is p + k
TrUpPkt(i) == 100000 * i
TrDnPkt(i) == 100000 * (100 + i)
TrPLen(p) == IF p < 10000000 THEN TrUpLens[p \div 100000] ELSE TrDnLens[(p \div 100000) - 100]

VARIABLE l
tvars == <<vars, l>>
Ev == TraceLog[l]
IsEvent(e) == l <= TraceLen /\ Ev.e = e /\ l' = l + 1

Frozen == UNCHANGED <<C, netQ, netA, upNext, dnNext, tunS, tunC, accS, accC, loss, dup, tos, rcvd, answd, aser, lastact>>

\* the units of an upstream payload slice: bytes off+1..off+len of the image of packet pkt (pkt = 0: unknown bytes)
Units(m) == IF m.pkt = 0 THEN [k \in 1..m.len |-> 0]
            ELSE [k \in 1..m.len |-> TrUpPkt(m.pkt) + m.off + k]
Msg(m) == [id |-> m.id, nm |-> m.nm, cs |-> m.cs, kind |-> m.kind, useq |-> m.useq, ufrag |-> m.ufrag,
           dseq |-> m.dseq, dfrag |-> m.dfrag, last |-> (m.last = 1), units |-> Units(m)]

\* what the step emitted, as the trace logs it
OutOf(s) == [i \in 1..Len(s.outbox) |->
                [id |-> s.outbox[i].id, dseq |-> s.outbox[i].dseq, dfrag |-> s.outbox[i].dfrag,
                 useq |-> s.outbox[i].useq, ufrag |-> s.outbox[i].ufrag,
                 last |-> IF s.outbox[i].last THEN 1 ELSE 0, len |-> Len(s.outbox[i].units),
                 x |-> IF s.outbox[i].illegal THEN 1 ELSE 0]]
Proj(s) == [iseq |-> s.iseq, ifrag |-> s.ifrag, ilen |-> Len(s.ibuf),
            oseq |-> s.oseq, ofrag |-> s.ofrag, olen |-> s.olen, ooff |-> s.ooff, osent |-> s.osent,
            resent |-> s.resent, outq |-> Len(s.outq),
            q |-> s.q.id, q2 |-> IF s.q.id = 0 THEN 0 ELSE s.q.id2,
            qrs |-> s.qrs.id, qrs2 |-> IF s.qrs.id = 0 THEN 0 ELSE s.qrs.id2,
            tunw |-> Len(s.tunw)]

Step(s1) == LET s2 == Sweep(s1) IN
            /\ OutOf(s2) = Ev.out
            /\ Proj(s2) = Ev.st
            /\ S' = [s2 EXCEPT !.outbox = <<>>, !.tunw = <<>>]
            /\ Frozen

TConfig == IsEvent("Config") /\ UNCHANGED vars
TRecv == /\ IsEvent("Recv")
         /\ LET m == Msg(Ev.m) IN
            Step(IF m.kind = "ping" THEN SrvPing(Begin(S), m) ELSE SrvData(Begin(S), m))
TTun == IsEvent("Tun") /\ Step(SrvTun(Begin(S), TrDnPkt(Ev.p)))
TTick == IsEvent("Tick") /\ Step(Begin(S))

TInit == Init /\ l = 1
TNext == TConfig \/ TRecv \/ TTun \/ TTick
TraceSpec == TInit /\ [][TNext]_tvars
TraceAccepted ==
    LET d == TLCGet("stats").diameter IN
    /\ PrintT(<<"TRACE_REACHED", d - 1, TraceLen>>)
    /\ d - 1 = TraceLen
=============================================================================
