--------------------------- MODULE TraceTunnelSrv ---------------------------
(* Layer A binding of the data plane, server half: every step of the real       *)
(* iodined's event loop in a simulated single-client session (a ping or data    *)
(* query read, a packet read from the tun device, a 20 ms sweep) must be a step *)
(* of Tunnel.tla's server functions (SrvPing / SrvData / SrvTun / Sweep) from   *)
(* the same state, producing the same answers (id, sequence / fragment numbers, *)
(* last flag, which bytes of which packet, suppression) and the same users[]    *)
(* projection (reassembly position, outpacket position, re-send counter, queue  *)
(* length, held and send-real-soon queries with their remembered duplicates),   *)
(* and the same tun writes.  Drift only - never a violation.                    *)
(* Per TLC run (environment): TT_FRAG, TT_LAZY, TT_LENS (JSON file with the     *)
(* compressed lengths of all packets of the file's executions).                 *)
EXTENDS Tunnel, TraceBase

Lens == ndJsonDeserialize(IOEnv.TT_LENS)[1]
TrUpLens == Lens.up
TrDnLens == Lens.dn
TrFrag == atoi(IOEnv.TT_FRAG)
TrLazy == IOEnv.TT_LAZY = "1"
\* upstream packet i = 70000 * i, downstream packet i = 70000 * (15000 + i); unit k of its image is p + k (k <= 65536)
SP == 70000
DB == 15000
TrUpPkt(i) == SP * i
TrDnPkt(i) == SP * (DB + i)
TrPLen(p) == IF p < SP * DB THEN TrUpLens[p \div SP] ELSE TrDnLens[(p \div SP) - DB]
UNKNOWN == 99999

VARIABLE l
tvars == <<vars, l>>
Ev == TraceLog[l]
IsEvent(e) == l <= TraceLen /\ Ev.e = e /\ l' = l + 1

Frozen == UNCHANGED <<C, netQ, netA, upNext, dnNext, tunS, tunC, accS, accC, loss, dup, tos, rcvd, answd, aser, lastact>>

\* the units of an upstream payload slice: bytes off+1..off+len of the image of packet pkt (pkt = 0: unknown bytes)
Units(m) == IF m.pkt = 0 THEN [k \in 1..m.len |-> 0]
            ELSE [k \in 1..m.len |-> TrUpPkt(m.pkt) + m.off + k]
Msg(m) == [id |-> m.id, nm |-> m.nm, cs |-> m.cs, kind |-> m.kind, useq |-> m.useq, ufrag |-> m.ufrag,
           dseq |-> m.dseq, dfrag |-> m.dfrag, last |-> (m.last = 1), units |-> Units(m)]

\* an emitted answer agrees with a logged one
SameAns(a, r) ==
    /\ a.id = r.id
    /\ IF a.illegal THEN r.x = 1
       ELSE /\ r.x = 0
            /\ a.dseq = r.dseq /\ a.dfrag = r.dfrag /\ a.useq = r.useq /\ a.ufrag = r.ufrag
            /\ (IF a.last THEN 1 ELSE 0) = r.last
            /\ Len(a.units) = r.len
            /\ (r.len > 0 /\ r.off # UNKNOWN) =>
                  /\ r.pk = (a.units[1] \div SP) - DB
                  /\ r.off = (a.units[1] % SP) - 1
SameOut(s) == /\ Len(s.outbox) = Len(Ev.out)
              /\ \A i \in 1..Len(s.outbox) : SameAns(s.outbox[i], Ev.out[i])
Proj(s) == [iseq |-> s.iseq, ifrag |-> s.ifrag, ilen |-> Len(s.ibuf),
            oseq |-> s.oseq, ofrag |-> s.ofrag, olen |-> s.olen, ooff |-> s.ooff, osent |-> s.osent,
            resent |-> s.resent, outq |-> Len(s.outq),
            q |-> s.q.id, q2 |-> IF s.q.id = 0 THEN 0 ELSE s.q.id2,
            qrs |-> s.qrs.id, qrs2 |-> IF s.qrs.id = 0 THEN 0 ELSE s.qrs.id2]
TunW(s) == [i \in 1..Len(s.tunw) |-> s.tunw[i] \div SP]

Step(s1) == LET s2 == Sweep(s1) IN
            /\ SameOut(s2)
            /\ Proj(s2) = Ev.st
            /\ TunW(s2) = Ev.tunw
            /\ S' = [s2 EXCEPT !.outbox = <<>>, !.tunw = <<>>]
            /\ Frozen

\* one iteration of the server loop: q_sendrealsoon_new reset, the handlers that ran (the tun handler first, then the DNS
\* handler), then the sweep
Handle(s, h) == IF h.k = "Tun" THEN SrvTun(s, TrDnPkt(h.p))
                ELSE LET m == Msg(h) IN IF m.kind = "ping" THEN SrvPing(s, m) ELSE SrvData(s, m)
After[i \in 0..Len(Ev.hs)] == IF i = 0 THEN Begin(S) ELSE Handle(After[i - 1], Ev.hs[i])

TStart == IsEvent("Start") /\ Proj(S) = Ev.st /\ UNCHANGED vars
TIter == IsEvent("Iter") /\ Step(After[Len(Ev.hs)])
TReset == IsEvent("Reset") /\ S' = SInit /\ Frozen

TInit == Init /\ l = 1
TNext == TStart \/ TIter \/ TReset
TraceSpec == TInit /\ [][TNext]_tvars
TraceAccepted ==
    LET d == TLCGet("stats").diameter IN
    /\ PrintT(<<"TRACE_REACHED", d - 1, TraceLen>>)
    /\ d - 1 = TraceLen
=============================================================================
