----------------------------- MODULE Negotiation -----------------------------
(* Layer A: the decision procedure of the client's handshake (src/client.c       *)
(* client_handshake and its helpers) against a DNS path from the product family  *)
(* of property C11, and - separately - the ground truth of what survives such a  *)
(* path.  One action per handshake stage.  The relay is chosen in Init and never *)
(* changes ("a fixed transformation").                                           *)
EXTENDS Naturals, Sequences, FiniteSets

CONSTANTS
    PatternHasPlus,     \* FALSE: the real DOWNCODECCHECK1 pattern contains no '+' (0x2B) byte
    MAXF                \* fragment sizes are 1..MAXF abstract units

Cases == {"keep", "lower", "upper", "random"}
Eight == {"clean", "strip", "reject"}
Punct == {"keep", "plus", "under"}
TypeOrder == <<"NULL", "PRIVATE", "TXT", "SRV", "MX", "CNAME", "A">>
Limits == {100, 16, 8, 4}                      \* answer size limits in units: none / 4096 / 1232 / 512
Family == [qcase : Cases, q8 : Eight, qpunct : Punct, acase : Cases, a8 : Eight, apunct : Punct,
           first : 1..7,                        \* the relay refuses the types before TypeOrder[first]
           limit : Limits, edns : BOOLEAN]

VARIABLES relay, pc, forcedT, forcedO, qtype, upenc, downenc, frag, ok
vars == <<relay, pc, forcedT, forcedO, qtype, upenc, downenc, frag, ok>>

Allowed(r, t) == \E i \in r.first..7 : TypeOrder[i] = t
RawTypes == {"NULL", "PRIVATE"}

(* ---------------- ground truth: what survives the path ---------------- *)
SurvivesUp(c, r) == CASE c = "b32" -> TRUE
                      [] c = "b64" -> r.qcase = "keep" /\ r.qpunct # "plus"
                      [] c = "b64u" -> r.qcase = "keep" /\ r.qpunct # "under"
                      [] c = "b128" -> r.qcase = "keep" /\ r.q8 = "clean"
\* the relay rewrites names and TXT strings of answers and leaves NULL/PRIVATE rdata alone
SurvivesDown(c, t, r) ==
    IF t \in RawTypes THEN TRUE
    ELSE CASE c = "T" -> TRUE
           [] c = "S" -> r.acase = "keep" /\ r.apunct # "plus"
           [] c = "U" -> r.acase = "keep" /\ r.apunct # "under"
           [] c = "V" -> r.acase = "keep" /\ r.a8 = "clean"
           [] c = "R" -> r.acase = "keep" /\ r.a8 = "clean" /\ r.apunct = "keep"
\* size of an answer carrying f payload units (expansion by codec, constant overhead) against the effective limit
Expansion(c) == CASE c = "R" -> 8 [] c = "V" -> 9 [] c \in {"S", "U"} -> 11 [] OTHER -> 13     \* eighths
EffLimit(r) == IF r.edns THEN r.limit ELSE IF r.limit < 4 THEN r.limit ELSE 4    \* no EDNS0: classic 512-byte limit
AnswerFits(f, c, r) == (f * Expansion(c)) \div 8 + 1 <= EffLimit(r)

(* ---------------- what the client's tests observe ---------------- *)
\* 'z' bounce tests (handshake_upenc_autodetect): any case change keeps Base32
UpTest(c, r) == SurvivesUp(c, r)
\* 'y' test with the DOWNCODECCHECK1 pattern: the pattern holds bytes >= 0x80, both letter cases and '_',
\* but a '+' only if PatternHasPlus
DownTest(c, t, r) ==
    IF c = "R" /\ t \notin RawTypes
    THEN r.acase = "keep" /\ r.a8 = "clean" /\ r.apunct # "under" /\ (PatternHasPlus => r.apunct # "plus")
    ELSE SurvivesDown(c, t, r)

\* (deviation of the code, named: the PRIVATE probe asks for the Raw test pattern, which the server only serves for NULL
\*  and TXT, so autodetection never settles on PRIVATE)
AutoFirst(r) == IF r.first = 2 THEN 3 ELSE r.first
QtypeOf(r, fT) == IF fT # "auto" THEN fT ELSE TypeOrder[AutoFirst(r)]

Init == /\ relay \in Family
        /\ forcedT \in {"auto"} \cup {TypeOrder[i] : i \in 1..7}
        /\ forcedO \in {"auto", "T", "S", "U", "V", "R"}
        /\ (forcedO = "R" => forcedT \in {"auto", "TXT", "NULL", "PRIVATE"})
        /\ pc = "qtype" /\ qtype = "none" /\ upenc = "b32" /\ downenc = "T" /\ frag = 0 /\ ok = FALSE

\* handshake_qtype_autodetect: first type (in probe order) whose test answer comes back
StageQtype ==
    /\ pc = "qtype"
    /\ IF forcedT # "auto"
       THEN qtype' = forcedT /\ pc' = IF Allowed(relay, forcedT) THEN "upenc" ELSE "failed"   \* version query unanswered
       ELSE qtype' = QtypeOf(relay, "auto") /\ pc' = "upenc"
    /\ UNCHANGED <<relay, forcedT, forcedO, upenc, downenc, frag, ok>>

\* version, login (Base32 both ways: always pass), EDNS0 probe, then handshake_upenc_autodetect + switch
StageUpenc ==
    /\ pc = "upenc"
    /\ upenc' = IF relay.qcase # "keep" THEN "b32"
                ELSE IF UpTest("b128", relay) THEN "b128"
                ELSE IF UpTest("b64", relay) THEN "b64"
                ELSE IF UpTest("b64u", relay) THEN "b64u" ELSE "b32"
    /\ pc' = "downenc"
    /\ UNCHANGED <<relay, forcedT, forcedO, qtype, downenc, frag, ok>>

\* handshake_downenc_autodetect (decision tree) or the forced codec, switched to WITHOUT a test
StageDownenc ==
    /\ pc = "downenc"
    /\ downenc' =
         IF forcedO # "auto" THEN forcedO
         ELSE IF qtype \in RawTypes THEN "T"          \* no switch: NULL/PRIVATE answers are raw whatever the setting
         ELSE LET s == DownTest("S", qtype, relay)
                  u == ~s /\ DownTest("U", qtype, relay)
                  v == (s \/ u) /\ DownTest("V", qtype, relay)
                  rw == v /\ qtype = "TXT" /\ DownTest("R", qtype, relay)
              IN IF rw THEN "R" ELSE IF v THEN "V" ELSE IF s THEN "S" ELSE IF u THEN "U" ELSE "T"
    /\ pc' = "frag"
    /\ UNCHANGED <<relay, forcedT, forcedO, qtype, upenc, frag, ok>>

\* handshake_autoprobe_fragsize: the largest size whose probe answer arrives intact (0: none -> handshake fails).
\* The probe pattern holds high bytes and, once encoded, both letter cases, so case / 8-bit damage makes every probe
\* fail; a path that only damages one punctuation character lets the (small) probes without that character through.
PunctOnly(c, t, r) == /\ t \notin RawTypes /\ r.acase = "keep"
                      /\ \/ (c = "S" /\ r.apunct = "plus")
                         \/ (c = "U" /\ r.apunct = "under")
                         \/ (c = "R" /\ r.a8 = "clean" /\ r.apunct # "keep")
ProbeOK(c, t, r) == SurvivesDown(c, t, r) \/ PunctOnly(c, t, r)
StageFrag ==
    /\ pc = "frag"
    /\ LET fits == {f \in 1..MAXF : AnswerFits(f, downenc, relay) /\ ProbeOK(downenc, qtype, relay)}
       IN /\ frag' = IF fits = {} THEN 0 ELSE CHOOSE f \in fits : \A g \in fits : g <= f
          /\ pc' = IF fits = {} THEN "failed" ELSE "done"
          /\ ok' = (fits # {})
    /\ UNCHANGED <<relay, forcedT, forcedO, qtype, upenc, downenc>>

Next == StageQtype \/ StageUpenc \/ StageDownenc \/ StageFrag

(* the same decisions as functions of (relay, forced type, forced codec), for the binding to recorded handshakes *)
ReachesLogin(r, fT) == fT = "auto" \/ Allowed(r, fT)
UpencOf(r) == IF r.qcase # "keep" THEN "b32" ELSE IF UpTest("b128", r) THEN "b128"
              ELSE IF UpTest("b64", r) THEN "b64" ELSE IF UpTest("b64u", r) THEN "b64u" ELSE "b32"
DownencOf(r, t, fO) ==
    IF fO # "auto" THEN fO
    ELSE IF t \in RawTypes THEN "T"
    ELSE LET s == DownTest("S", t, r)
             u == ~s /\ DownTest("U", t, r)
             v == (s \/ u) /\ DownTest("V", t, r)
             rw == v /\ t = "TXT" /\ DownTest("R", t, r)
         IN IF rw THEN "R" ELSE IF v THEN "V" ELSE IF s THEN "S" ELSE IF u THEN "U" ELSE "T"
OkOf(r, fT, fO) == /\ ReachesLogin(r, fT)
                   /\ LET t == QtypeOf(r, fT) d == DownencOf(r, t, fO)
                      IN \E f \in 1..MAXF : AnswerFits(f, d, r) /\ ProbeOK(d, t, r)
\* e = [relay, fT, fO, ok, qtype, upenc, downenc]: what a recorded real handshake settled on
NegMatches(e) == /\ e.ok = OkOf(e.relay, e.fT, e.fO)
                 /\ e.ok => /\ e.qtype = QtypeOf(e.relay, e.fT)
                            /\ e.upenc = UpencOf(e.relay)
                            /\ e.downenc = DownencOf(e.relay, e.qtype, e.fO)
Spec == Init /\ [][Next]_vars

-----------------------------------------------------------------------------
Settled == pc = "done"
\* C11 soundness: everything the completed handshake settled on survives the path
SoundType == Settled => Allowed(relay, qtype)
SoundUp == Settled => SurvivesUp(upenc, relay)
SoundDown == Settled => SurvivesDown(downenc, qtype, relay)
SoundFrag == Settled => AnswerFits(frag, downenc, relay)
\* the same with the two documented deviations of the code named (known findings of C11):
KnownRawPlus == downenc = "R" /\ forcedO = "auto" /\ ~PatternHasPlus /\ relay.apunct = "plus"
SoundDownAuto == (Settled /\ forcedO = "auto" /\ ~KnownRawPlus) => SurvivesDown(downenc, qtype, relay)
\* a forced codec is never tested: the handshake completes whenever the fragment-size probes get through
KnownForced == forcedO # "auto"
\* C11 completeness: with nothing forced the handshake succeeds on every path of the family (all of them pass
\* Base32 names and 512-byte answers for at least one supported type)
Complete == (pc \in {"done", "failed"} /\ forcedT = "auto" /\ forcedO = "auto") => pc = "done"
=============================================================================
