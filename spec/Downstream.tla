------------------------------ MODULE Downstream ------------------------------
(* Layer C, property C09: what the client extracts from the server's answer is *)
(* exactly the payload, a proper prefix of it, or nothing - never different     *)
(* bytes - and exactness is monotone in the payload length.  Payloads are       *)
(* regenerated here from (kind, seed, len): 0 all-0x00, 1 all-0xFF, 2 the       *)
(* fragment-size probe pattern, 3 a quadratic pseudo-random sequence.           *)
EXTENDS Naturals, Sequences

PayAt(kind, seed, len, i) ==        \* i = 0-based index
    CASE kind = 0 -> 0
      [] kind = 1 -> 255
      [] kind = 2 -> IF i = 0 THEN (len \div 256) % 256 ELSE IF i = 1 THEN len % 256 ELSE IF i = 2 THEN 107
                     ELSE (seed + (i - 3) * 107) % 256
      [] OTHER -> (i * i * 7 + i * 13 + seed) % 256
Pay(kind, seed, len, upto) == [j \in 1..upto |-> PayAt(kind, seed, len, j - 1)]
Csum(s) == LET S[i \in 0..Len(s)] == IF i = 0 THEN 0 ELSE (S[i - 1] + s[i] * (((i - 1) % 251) + 1)) % 65521
           IN S[Len(s)]

\* "fits that answer format": what one answer of each record type can carry, from the format itself -
\*  NULL / PRIVATE: raw rdata, every length of the quantifier (<= 4096, the receiver's rdata buffer);
\*  MX / SRV: up to 250 exchange names, far more than 4096 bytes;
\*  TXT: character strings decoded into the receiver's 4096-byte text buffer: one codec letter + 4095 characters;
\*  CNAME / A: one host name of at most 253 characters: minus ".xy", the codec letter and a dot every 57 characters = 245
Bits(c) == CASE c = "T" -> 5 [] c = "S" -> 6 [] c = "U" -> 6 [] c = "V" -> 7 [] OTHER -> 8
\* (a session whose downstream codec is Raw gets host-name answers in Base32: a name cannot carry raw bytes)
HBits(c) == IF c = "R" THEN 5 ELSE Bits(c)
Fits(e) == CASE e.qt = 16 -> e.len <= (4095 * Bits(e.codec)) \div 8
             [] e.qt \in {5, 1} -> e.len <= (245 * HBits(e.codec)) \div 8
             [] OTHER -> e.len <= 4096

VARIABLE minNonExact        \* smallest payload length of the current sweep that was not delivered exactly
DInit == minNonExact = 100000

\* e = [qt, codec, qlen, kind, seed, len, glen, gsum, full, got]: the real pipe write_dns -> wire -> read_dns_withq
\* delivered glen bytes (all of them logged when full, their checksum always) for a payload of len bytes
Down(e) ==
    LET exp == Pay(e.kind, e.seed, e.len, e.glen)
        exact == e.glen = e.len
    IN /\ e.glen <= e.len                            \* exactly the payload, a proper prefix of it, or nothing ...
       /\ e.gsum = Csum(exp)                         \* ... never different bytes
       /\ e.full => e.got = exp
       /\ Fits(e) => exact                           \* exactly the payload when it fits the answer format
       /\ exact => e.len < minNonExact               \* if a length is delivered exactly, so is every shorter one
       /\ minNonExact' = IF exact \/ e.len >= minNonExact THEN minNonExact ELSE e.len
DReset == minNonExact' = 100000
=============================================================================
