SPECIFICATION TraceSpec
CONSTANTS
  Users = {0,1,2,3,4,5,6,7,8,9,10,11,12,13,14,15}
POSTCONDITION TraceAccepted
CHECK_DEADLOCK FALSE
