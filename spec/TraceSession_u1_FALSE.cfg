SPECIFICATION TraceSpec
CONSTANTS
  USERS = 1
  Srcs = {1, 2, 3, 4}
  EXP = 60
  CheckIp = FALSE
  Dts = {1}
  OUTCAP = 5
  MaxSeeds = 1000
  CodecArgs = {"b32"}
  OptArgs = {"T"}
  FragArgs = {60}
POSTCONDITION TraceAccepted
CHECK_DEADLOCK FALSE
