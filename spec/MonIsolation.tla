----------------------------- MODULE MonIsolation -----------------------------
(* Property monitor for C04.  Observables (t = server time in whole seconds):   *)
(*   NewSession(u, src, t)   a version request from src was acknowledged with   *)
(*                           slot u                                              *)
(*   Full(t)                 a version request was answered "server full"        *)
(*   Req(u, src, dns, c, reply, same, neff, t)                                   *)
(*        a request naming slot u arrived from src; dns = it is a DNS-mode       *)
(*        command; reply = class of the reply; same = the complete users[u]      *)
(*        record (digest) is unchanged; neff = number of observable effects      *)
(*        on behalf of / towards u in this step                                  *)
(*   LoginOk(u, addr, t)     login accepted, tunnel address addr assigned        *)
(*   Rebind(u, src, t, proof) a raw-mode login was accepted from src; proof = it *)
(*                           carried the right response for u's current         *)
(*                           challenge (only such a login may rebind a session) *)
(*   Down(u, dst, to, t, fresh) a downstream datagram for session u carried the  *)
(*                           payload of a packet whose IP destination is dst,    *)
(*                           sent to source address `to`                         *)
(* CheckIp = source checking enabled.  "Active during the last 60 s" is judged    *)
(* with the accepted requests the wire shows (lastAcc; t = the server's own      *)
(* clock reading when it handled the request, so the takeover clause is exact:   *)
(* silence of exactly 60 s still protects the slot); "silent for more than 60 s" *)
(* with every request naming the slot from anyone (lastAny), with a second of    *)
(* slack, so that those clauses only reject what is wrong under every reading.   *)
EXTENDS Naturals, FiniteSets

CONSTANTS Users, CheckIp, EXP
VARIABLES inuse, bound, logged, addr, lastAcc, lastAny

mvars == <<inuse, bound, logged, addr, lastAcc, lastAny>>
MIsInit == /\ inuse = [u \in Users |-> FALSE] /\ bound = [u \in Users |-> 0]
           /\ logged = [u \in Users |-> FALSE] /\ addr = [u \in Users |-> ""]
           /\ lastAcc = [u \in Users |-> 0] /\ lastAny = [u \in Users |-> 0]

NewSession(u, src, t) ==
    /\ u \in Users
    /\ inuse[u] => t - lastAcc[u] > EXP                  \* never takes over a slot that was active during the last EXP s
                                                          \* (t is the server's own clock reading at each request)
    /\ inuse' = [inuse EXCEPT ![u] = TRUE] /\ bound' = [bound EXCEPT ![u] = src]
    /\ logged' = [logged EXCEPT ![u] = FALSE] /\ addr' = [addr EXCEPT ![u] = ""]
    /\ lastAcc' = [lastAcc EXCEPT ![u] = t] /\ lastAny' = [lastAny EXCEPT ![u] = t]

\* "full" is wrong while some slot was never used or has been silent for more than EXP seconds
Full(t) == /\ \A u \in Users : inuse[u] /\ t - lastAny[u] <= EXP + 1
           /\ UNCHANGED mvars

Refused(reply, same, neff) == reply \in {"BADIP", "none"} /\ same /\ neff = 0
Accepting == {"LACK", "LNAK", "DATA", "RAWLOGIN", "RAWPING"}

Req(u, src, dns, c, reply, same, neff, t) ==
    IF u \notin Users THEN UNCHANGED mvars
    ELSE
    /\ (CheckIp /\ dns /\ inuse[u] /\ src # bound[u]) => Refused(reply, same, neff)   \* spoofed source
    /\ (inuse[u] /\ t - lastAny[u] > EXP + 1) => Refused(reply, same, neff)           \* expired session
    /\ ~inuse[u] => (reply \in {"BADIP", "none"} /\ neff = 0)                         \* no such session
    /\ lastAny' = [lastAny EXCEPT ![u] = t]
    \* only tunnel traffic (login, ping, data, raw frames) keeps a session alive in every reading; the
    \* handshake commands I/S/O/N/R do not refresh last_pkt in the code
    /\ lastAcc' = IF inuse[u] /\ (reply \in Accepting \/ (c \in {"D", "RD"} /\ neff > 0))
                  THEN [lastAcc EXCEPT ![u] = t] ELSE lastAcc
    /\ UNCHANGED <<inuse, bound, logged, addr>>

LoginOk(u, a, t) == /\ u \in Users /\ inuse[u]
                    /\ logged' = [logged EXCEPT ![u] = TRUE] /\ addr' = [addr EXCEPT ![u] = a]
                    /\ \A v \in Users \ {u} : (inuse[v] /\ logged[v]) => addr[v] # a   \* addresses are not shared
                    /\ UNCHANGED <<inuse, bound, lastAcc, lastAny>>

Rebind(u, src, t, proof) == /\ u \in Users /\ inuse[u] /\ logged[u]
                     /\ proof
                     /\ bound' = [bound EXCEPT ![u] = src]
                     /\ UNCHANGED <<inuse, logged, addr, lastAcc, lastAny>>

\* fresh = the packet reached the server for the session that now receives it - not for an earlier tenant of the slot,
\* who had the same tunnel address ("only to the live, logged-in session that was assigned A": what was waiting for a
\* session that is gone is dropped with it)
Down(u, dst, to, t, fresh) ==
    /\ u \in Users /\ inuse[u] /\ logged[u]
    /\ fresh
    /\ dst = addr[u]                                     \* only the session that was assigned this address
    /\ CheckIp => to = bound[u]                          \* at the address bound to it
    /\ t - lastAny[u] <= EXP + 1                         \* and only while it is live
    /\ UNCHANGED mvars

MIsReset == /\ inuse' = [u \in Users |-> FALSE] /\ bound' = [u \in Users |-> 0]
            /\ logged' = [u \in Users |-> FALSE] /\ addr' = [u \in Users |-> ""]
            /\ lastAcc' = [u \in Users |-> 0] /\ lastAny' = [u \in Users |-> 0]
=============================================================================
