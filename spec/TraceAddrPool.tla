---------------------------- MODULE TraceAddrPool ----------------------------
EXTENDS AddrPool, TraceBase
VARIABLE l
tvars == <<n, l>>
TInit == AInit /\ l = 1
Ev == TraceLog[l]
IsEvent(e) == l <= TraceLen /\ Ev.e = e /\ l' = l + 1 /\ UNCHANGED n
TPool == IsEvent("Pool") /\ PoolOK(Ev)
TLookup == IsEvent("Lookup") /\ LookupOK(Ev)
TRange == IsEvent("Range") /\ RangeOK(Ev)
TTold == IsEvent("Told") /\ ToldOK(Ev)
TCapacity == IsEvent("Capacity") /\ CapacityOK(Ev)
TReset == IsEvent("Reset")
TNext == TPool \/ TLookup \/ TRange \/ TTold \/ TCapacity \/ TReset
TraceSpec == TInit /\ [][TNext]_tvars
TraceAccepted ==
    LET d == TLCGet("stats").diameter IN
    /\ PrintT(<<"TRACE_REACHED", d - 1, TraceLen>>)
    /\ d - 1 = TraceLen
=============================================================================
