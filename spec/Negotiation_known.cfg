SPECIFICATION Spec
CONSTANTS
  PatternHasPlus = FALSE
  MAXF = 12
INVARIANTS
  SoundDown
CHECK_DEADLOCK FALSE
