-------------------------------- MODULE Shell --------------------------------
(* C13: grammar of the operating-system configuration commands the client may  *)
(* run, over command lines given as sequences of character codes.  The only    *)
(* peer-derived parts are strict dotted-quad IPv4 addresses and decimal        *)
(* integers in range; the interface name is chosen locally.  This states the   *)
(* requirement (it does not transcribe inet_addr()).                           *)
EXTENDS Naturals, Sequences, FiniteSets

Digit(c) == c >= 48 /\ c <= 57
Lower(c) == c >= 97 /\ c <= 122
SP == 32
DOT == 46

IsDigits(t) == Len(t) >= 1 /\ \A i \in 1..Len(t) : Digit(t[i])
RECURSIVE NumOf(_)
NumOf(t) == IF t = <<>> THEN 0 ELSE 10 * NumOf(SubSeq(t, 1, Len(t) - 1)) + (t[Len(t)] - 48)

\* split s on separator sep; empty pieces are kept (so "a  b" has an empty token)
RECURSIVE SplitFrom(_, _, _, _)
SplitFrom(s, sep, i, cur) ==
    IF i > Len(s) THEN <<cur>>
    ELSE IF s[i] = sep THEN <<cur>> \o SplitFrom(s, sep, i + 1, <<>>)
    ELSE SplitFrom(s, sep, i + 1, Append(cur, s[i]))
Split(s, sep) == SplitFrom(s, sep, 1, <<>>)

Octet(t) == IsDigits(t) /\ Len(t) <= 3 /\ NumOf(t) <= 255
DottedQuad(t) == LET p == Split(t, DOT) IN Len(p) = 4 /\ \A i \in 1..4 : Octet(p[i])
IntIn(t, lo, hi) == IsDigits(t) /\ Len(t) <= 9 /\ NumOf(t) >= lo /\ NumOf(t) <= hi
IfName(t) == Len(t) >= 1 /\ Len(t) <= 15 /\ \A i \in 1..Len(t) : Digit(t[i]) \/ Lower(t[i])

PATHTOK == <<80, 65, 84, 72, 61, 47, 115, 98, 105, 110, 58, 47, 98, 105, 110>>   \* PATH=/sbin:/bin
IFCONFIG == <<105, 102, 99, 111, 110, 102, 105, 103>>                          \* ifconfig
NETMASK == <<110, 101, 116, 109, 97, 115, 107>>                                \* netmask
MTU == <<109, 116, 117>>                                                       \* mtu

\* the netmask is the dotted form of a prefix length within the accepted range 1..32: leading 255s, one partial octet,
\* then zeros - and not 0.0.0.0 (a peer that could make the whole address space on-link is not "within the range")
MaskOctets == {0, 128, 192, 224, 240, 248, 252, 254, 255}
PrefixMask(t) ==
    /\ DottedQuad(t)
    /\ LET p == Split(t, DOT)
           o == [i \in 1..4 |-> NumOf(p[i])]
       IN /\ \A i \in 1..4 : o[i] \in MaskOctets
          /\ \A i \in 1..3 : o[i] < 255 => o[i + 1] = 0
          /\ o[1] # 0
\* the MTU is a decimal integer within the range the client accepts (201..1500)
ValidCmd(s) ==
    LET t == Split(s, SP) IN
    \/ /\ Len(t) = 7 /\ t[1] = PATHTOK /\ t[2] = IFCONFIG /\ IfName(t[3])
       /\ DottedQuad(t[4]) /\ DottedQuad(t[5]) /\ t[6] = NETMASK /\ PrefixMask(t[7])
    \/ /\ Len(t) = 5 /\ t[1] = PATHTOK /\ t[2] = IFCONFIG /\ IfName(t[3])
       /\ t[4] = MTU /\ IntIn(t[5], 201, 1500)

(* --- the design-level statement, checked by TLC over all short field strings --- *)
CONSTANTS Alphabet, MaxLen
Strings == UNION {[1..n -> Alphabet] : n \in 0..MaxLen}
ShellSafeChar(c) == Digit(c) \/ c = DOT
\* every field the grammar accepts consists of digits and dots only
ValidatedIsInert == \A f \in Strings : (DottedQuad(f) \/ IsDigits(f)) => \A i \in 1..Len(f) : ShellSafeChar(f[i])
\* a command assembled from validated fields is a valid command; one with an unvalidated field is not
Assemble(ip) == PATHTOK \o <<SP>> \o IFCONFIG \o <<SP, 100, 110, 115, 48, SP>> \o ip \o <<SP>> \o ip \o
                <<SP>> \o NETMASK \o <<SP, 50, 53, 53, DOT, 48, DOT, 48, DOT, 48>>
OnlyValidated == \A f \in Strings : ValidCmd(Assemble(f)) <=> DottedQuad(f)
ASSUME ValidatedIsInert
ASSUME OnlyValidated

VARIABLE n
SInit == n = 0
System(cmd) == ValidCmd(cmd) /\ n' = n + 1
SReset == n' = 0
Spec == SInit /\ [][FALSE]_n
=============================================================================
