------------------------------ MODULE MonServing ------------------------------
(* Property monitor for the functional half of C05.  Observables:              *)
(*   Hostile(changed, stray)  a hostile datagram (or tun packet) was processed;*)
(*        changed = live sessions bound to OTHER addresses whose complete      *)
(*        users[] record changed in that step; stray = datagrams the server    *)
(*        sent to other addresses than the hostile sender in that step         *)
(*   Probe(u, ok)   after the hostile input a live logged-in session was       *)
(*        offered a downstream packet and asked for it: ok = it arrived intact *)
(*   Refusal(gone)  the server refused a request (LNAK, BADLEN, BADCODEC,      *)
(*        BADFRAG, BADIP): gone = sessions that were established and live      *)
(*        before it and are not any more - a refused request ends no session   *)
(* Sanitizer aborts, hangs and server exits are events without any enabled     *)
(* action (memory safety / bounded time are observed by ASan+UBSan and the     *)
(* step watchdog of the harness, not specified here).                          *)
EXTENDS Naturals, Sequences
VARIABLE n
MSInit == n = 0
Hostile(changed, stray) == Len(changed) = 0 /\ stray = 0 /\ n' = n + 1
Probe(u, ok) == ok /\ n' = n + 1
Refusal(gone) == Len(gone) = 0 /\ n' = n + 1
MSReset == n' = 0
=============================================================================
