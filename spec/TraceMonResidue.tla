--------------------------- MODULE TraceMonResidue ---------------------------
EXTENDS MonResidue, TraceBase
VARIABLE l
tvars == <<n, l>>
TInit == MRsInit /\ l = 1
Ev == TraceLog[l]
IsEvent(e) == l <= TraceLen /\ Ev.e = e /\ l' = l + 1
TPair == IsEvent("Pair") /\ Pair(Ev.equal)
TReset == IsEvent("Reset") /\ MRsReset
TNext == TPair \/ TReset
TraceSpec == TInit /\ [][TNext]_tvars
TraceAccepted ==
    LET d == TLCGet("stats").diameter IN
    /\ PrintT(<<"TRACE_REACHED", d - 1, TraceLen>>)
    /\ d - 1 = TraceLen
=============================================================================
