SPECIFICATION TraceSpec
CONSTANTS
  Sides = {"S", "C0", "C1", "C2"}
  Fabricated = 0
POSTCONDITION TraceAccepted
CHECK_DEADLOCK FALSE
