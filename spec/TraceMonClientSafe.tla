-------------------------- MODULE TraceMonClientSafe --------------------------
EXTENDS MonClientSafe, TraceBase
VARIABLE l
tvars == <<n, l>>
TInit == MCInit /\ l = 1
Ev == TraceLog[l]
IsEvent(e) == l <= TraceLen /\ Ev.e = e /\ l' = l + 1
TReply == IsEvent("Reply") /\ Reply(Ev.matched, Ev.tunw, Ev.sys, Ev.ackchg)
TReset == IsEvent("Reset") /\ MCReset
TNext == TReply \/ TReset
TraceSpec == TInit /\ [][TNext]_tvars
TraceAccepted ==
    LET d == TLCGet("stats").diameter IN
    /\ PrintT(<<"TRACE_REACHED", d - 1, TraceLen>>)
    /\ d - 1 = TraceLen
=============================================================================
