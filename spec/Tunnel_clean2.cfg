SPECIFICATION Spec
CONSTANTS
  SEQMOD = 8
  FRAGMOD = 16
  RECENT = 4
  UpLens <- Len21
  DnLens <- Len21
  CAPUP = 1
  FRAGSIZE = 1
  CACHE = 2
  QMEMD = 2
  QMEMP = 3
  OUTQ = 1
  SRVRESEND = 5
  CLIRESEND = 3
  LAZY = TRUE
  MaxLoss = 0
  MaxDup = 0
  MaxQ = 14
  MaxTO = 3
  PROMPT = TRUE
INVARIANTS
  TypeOK
  InOrderOnce
  DoneDelivered
  Integrity
  NoSurplus
  NeverTwice
  HeldAtMostTwo
  FragBound
  LastFlagRight
CHECK_DEADLOCK FALSE
ALIAS Brief
