------------------------------ MODULE MonAnswers ------------------------------
(* Property monitor for C14.  Observables: DNS queries the server received     *)
(* (Recv), DNS answers it emitted (Ans), and the end of each server loop       *)
(* iteration (StepEnd).                                                        *)
(*  - every answer consumes a distinct, earlier, not yet answered query with   *)
(*    the same address, id, question name and type (at most one answer per     *)
(*    received query; nothing obliges the server to answer);                   *)
(*  - at the end of every server step, per session (address + userid), at most *)
(*    HoldMax                                                                  *)
(*    distinct tunnel (ping/data) queries with id # 0 are held back.  A query  *)
(*    stops counting as held once a query with the same question was answered  *)
(*    (un-remembered duplicates are dropped by design).  For "held back" a     *)
(*    question is identified ignoring letter case (lk = the name lower-cased): *)
(*    a case-changed copy of a held query is a duplicate of it, whether the    *)
(*    server remembers it as such or answers the held one and keeps the copy.  *)
EXTENDS Naturals, FiniteSets

CONSTANTS HoldMax,
          Strict     \* TRUE: the queries come from real clients - every tunnel query is a step of the protocol, so "received and
                     \* not yet answered" means "held back" and the two clauses about holding apply.  FALSE (scripted /
                     \* hostile peers): a query may be one the server drops without an answer (a DNS-mode data query for a
                     \* session in raw mode, ...) - only the first sentence of the property is judged

VARIABLES pending,   \* set of [n, src, holder, uid, id, qn, lk, qt, tun, held]; holder = the session the query belongs to
                     \* (requester address + userid in the query name: one address may speak for several sessions)
          done       \* questions <<lk, qt>> that have been answered at least once (repeats of those - from the same or
                     \* another relay address, the server's memories are keyed by question - are answered from the
                     \* memories at once and never count as held back)

MAInit == pending = {} /\ done = {}

Recv(n, src, holder, uid, id, qn, lk, qt, tun) ==
    /\ pending' = pending \cup {[n |-> n, src |-> src, holder |-> holder, uid |-> uid, id |-> id, qn |-> qn, lk |-> lk, qt |-> qt,
                                 tun |-> tun, held |-> (<<lk, qt>> \notin done)]}
    /\ UNCHANGED done

Match(r, dst, id, qn, qt) == r.src = dst /\ r.id = id /\ r.qn = qn /\ r.qt = qt

\* hdr = the answer carries a tunnel data header (2 or more payload bytes, not an error text): only those are
\* "answers to a held query"; 1-byte suppression replies, BADIP and the like are given at once by design
Ans(dst, id, qn, lk, qt, hdr) ==
    LET ms == {r \in pending : Match(r, dst, id, qn, qt)} IN
    /\ ms # {}
    /\ LET r == CHOOSE x \in ms : \A y \in ms : x.n <= y.n IN
       \* "answering the older one when a newer one arrives": a held tunnel query is not answered while an OLDER
       \* tunnel query with another question from the same address is still held back
       /\ (Strict /\ hdr /\ r.tun /\ r.held /\ r.id # 0) =>
             ~\E o \in pending : /\ o.holder = r.holder /\ o.tun /\ o.held /\ o.id # 0 /\ o.lk # r.lk /\ o.n < r.n
       /\ pending' = {IF x.lk = lk /\ x.qt = qt THEN [x EXCEPT !.held = FALSE] ELSE x
                      : x \in pending \ {r}}
       /\ done' = done \cup {<<lk, qt>>}

HeldNames(s) == {r.lk : r \in {x \in pending : x.holder = s /\ x.held /\ x.tun /\ x.id # 0}}

StepEnd == /\ Strict => \A s \in {r.holder : r \in pending} : Cardinality(HeldNames(s)) <= HoldMax
           /\ UNCHANGED <<pending, done>>

\* the server acknowledged a version request: slot u starts a new session and forgets whatever it held for the old one
\* (tunnel queries of the old session that were never answered no longer count as held back)
NewSession(u) == /\ pending' = {x \in pending : ~(x.tun /\ x.uid = u)}
                 /\ UNCHANGED done

MAReset == pending' = {} /\ done' = {}
=============================================================================
