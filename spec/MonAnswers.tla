------------------------------ MODULE MonAnswers ------------------------------
(* Property monitor for C14.  Observables: DNS queries the server received     *)
(* (Recv), DNS answers it emitted (Ans), and the end of each server loop       *)
(* iteration (StepEnd).                                                        *)
(*  - every answer consumes a distinct, earlier, not yet answered query with   *)
(*    the same address, id, question name and type (at most one answer per     *)
(*    received query; nothing obliges the server to answer);                   *)
(*  - at the end of every server step, per source address, at most HoldMax     *)
(*    distinct tunnel (ping/data) queries with id # 0 are held back.  A query  *)
(*    stops counting as held once a query with the same question was answered  *)
(*    (un-remembered duplicates are dropped by design).                        *)
EXTENDS Naturals, FiniteSets

CONSTANT HoldMax

VARIABLE pending    \* set of [n, src, id, qn, qt, tun, held]

MAInit == pending = {}

Recv(n, src, id, qn, qt, tun) ==
    pending' = pending \cup {[n |-> n, src |-> src, id |-> id, qn |-> qn, qt |-> qt,
                              tun |-> tun, held |-> TRUE]}

Match(r, dst, id, qn, qt) == r.src = dst /\ r.id = id /\ r.qn = qn /\ r.qt = qt

Ans(dst, id, qn, qt) ==
    LET ms == {r \in pending : Match(r, dst, id, qn, qt)} IN
    /\ ms # {}
    /\ LET r == CHOOSE x \in ms : \A y \in ms : x.n <= y.n IN
       pending' = {IF x.src = dst /\ x.qn = qn /\ x.qt = qt THEN [x EXCEPT !.held = FALSE] ELSE x
                   : x \in pending \ {r}}

HeldNames(s) == {r.qn : r \in {x \in pending : x.src = s /\ x.held /\ x.tun /\ x.id # 0}}

StepEnd == /\ \A s \in {r.src : r \in pending} : Cardinality(HeldNames(s)) <= HoldMax
           /\ UNCHANGED pending

MAReset == pending' = {}
=============================================================================
