--------------------------- MODULE TraceTunnelCli ---------------------------
(* Layer A binding of the data plane, client half: every iteration of the real  *)
(* client's tunnel loop (client_tunnel: select timeout, tunnel_tun, tunnel_dns) *)
(* in a simulated single-client session must be a step of Tunnel.tla's client    *)
(* functions (CliTimeout / CliTun / CliRecv) from the same state, emitting the   *)
(* same queries (kind, sequence / fragment numbers, acknowledgement, last flag,  *)
(* which bytes of which packet), writing the same packets to its tun device and  *)
(* ending in the same projection of its tunnel state (outpkt / inpkt positions,  *)
(* re-send counter, "ping soon").  Drift only - never a violation.               *)
(* Per TLC run (environment): TT_CAPUP, TT_LAZY, TT_LENS.                        *)
EXTENDS Tunnel, TraceBase

Lens == ndJsonDeserialize(IOEnv.TT_LENS)[1]
TrUpLens == Lens.up
TrDnLens == Lens.dn
TrCap == atoi(IOEnv.TT_CAPUP)
TrLazy == IOEnv.TT_LAZY = "1"
SP == 70000
DB == 15000
TrUpPkt(i) == SP * i
TrDnPkt(i) == SP * (DB + i)
TrPLen(p) == IF p < SP * DB THEN TrUpLens[p \div SP] ELSE TrDnLens[(p \div SP) - DB]
UNKNOWN == 99999

VARIABLE l
tvars == <<vars, l>>
Ev == TraceLog[l]
IsEvent(e) == l <= TraceLen /\ Ev.e = e /\ l' = l + 1

Frozen == UNCHANGED <<S, netQ, netA, upNext, dnNext, tunS, tunC, accS, accC, loss, dup, tos, rcvd, answd, aser, lastact>>

\* the answer a logged Recv handler read
Units(h) == IF h.pk = 0 THEN [k \in 1..h.len |-> 0]
            ELSE [k \in 1..h.len |-> TrDnPkt(h.pk) + h.off + k]
Ans(h) == [id |-> h.id, nm |-> h.id, cs |-> 0, kind |-> "x", illegal |-> (h.x = 1), ser |-> 0,
           useq |-> h.useq, ufrag |-> h.ufrag, dseq |-> h.dseq, dfrag |-> h.dfrag, last |-> (h.last = 1),
           units |-> Units(h)]

Handle(c, h) ==
    CASE h.k = "Timeout" -> CliTimeout(c)
      [] h.k = "Tun" -> IF h.p = 0 /\ ~Sending(c) THEN c ELSE CliTun(c, TrUpPkt(h.p))
      [] h.k = "Recv" -> CliRecv(c, Ans(h))
      [] h.k = "Foreign" -> [c EXCEPT !.ps = TRUE]      \* an answer to something that is no ping / data query of ours
      [] h.k = "BadIp" -> c
After[i \in 0..Len(Ev.hs)] == IF i = 0 THEN [C EXCEPT !.outbox = <<>>, !.tunw = <<>>] ELSE Handle(After[i - 1], Ev.hs[i])

SameQ(q, r) ==
    /\ q.kind = r.kind
    /\ q.dseq = r.dseq /\ q.dfrag = r.dfrag
    /\ q.kind = "data" =>
          /\ q.useq = r.useq /\ q.ufrag = r.ufrag /\ (IF q.last THEN 1 ELSE 0) = r.last
          /\ Len(q.units) = r.len
          /\ (r.len > 0 /\ r.off # UNKNOWN) => (r.pk = q.units[1] \div SP /\ r.off = (q.units[1] % SP) - 1)
SameOut(c) == /\ Len(c.outbox) = Len(Ev.out)
              /\ \A i \in 1..Len(c.outbox) : SameQ(c.outbox[i], Ev.out[i])
Proj(c) == [oseq |-> c.oseq, ofrag |-> c.ofrag, olen |-> c.olen, ooff |-> c.ooff, osent |-> c.osent,
            iseq |-> c.iseq, ifrag |-> c.ifrag, ilen |-> Len(c.ibuf), resent |-> c.resent,
            ps |-> IF c.ps THEN 1 ELSE 0]
TunW(c) == [i \in 1..Len(c.tunw) |-> (c.tunw[i] \div SP) - DB]

TStart == /\ IsEvent("Start")
          /\ C' = [CInit EXCEPT !.idcur = 3, !.ps = (Ev.st.ps = 1)]
          /\ Proj(C') = Ev.st
          /\ Frozen
TIter == /\ IsEvent("Iter")
         /\ LET c == After[Len(Ev.hs)] IN
            /\ SameOut(c)
            /\ Proj(c) = Ev.st
            /\ TunW(c) = Ev.tunw
            /\ C' = [c EXCEPT !.outbox = <<>>, !.tunw = <<>>]
         /\ Frozen
TReset == IsEvent("Reset") /\ C' = CInit /\ Frozen

TInit == Init /\ l = 1
TNext == TStart \/ TIter \/ TReset
TraceSpec == TInit /\ [][TNext]_tvars
TraceAccepted ==
    LET d == TLCGet("stats").diameter IN
    /\ PrintT(<<"TRACE_REACHED", d - 1, TraceLen>>)
    /\ d - 1 = TraceLen
=============================================================================
