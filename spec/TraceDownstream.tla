--------------------------- MODULE TraceDownstream ---------------------------
EXTENDS Downstream, TraceBase
VARIABLE l
tvars == <<minNonExact, l>>
TInit == DInit /\ l = 1
Ev == TraceLog[l]
IsEvent(e) == l <= TraceLen /\ Ev.e = e /\ l' = l + 1
TDown == IsEvent("Down") /\ Down(Ev)
TReset == IsEvent("Reset") /\ DReset
TNext == TDown \/ TReset
TraceSpec == TInit /\ [][TNext]_tvars
TraceAccepted ==
    LET d == TLCGet("stats").diameter IN
    /\ PrintT(<<"TRACE_REACHED", d - 1, TraceLen>>)
    /\ d - 1 = TraceLen
=============================================================================
