SPECIFICATION Spec
CONSTANTS
  Alphabet = {49, 50, 46, 32, 59, 36, 96, 124, 10}
  MaxLen = 4
CHECK_DEADLOCK FALSE
