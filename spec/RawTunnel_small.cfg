SPECIFICATION Spec
CONSTANTS
  UpLens <- L3
  DnLens <- L2
  RAWMAX = 4092
  MaxLoss = 2
  MaxDup = 2
INVARIANTS
  Integrity
  NeverTruncated
  DoneDelivered
CHECK_DEADLOCK FALSE
