SPECIFICATION TraceSpec
CONSTANTS
  HoldMax = 2
POSTCONDITION TraceAccepted
CHECK_DEADLOCK FALSE
