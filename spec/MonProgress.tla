------------------------------ MODULE MonProgress ------------------------------
(* Property monitor for C02 (progress and recovery), safety-ised on virtual time *)
(* (milliseconds).  Observables: Accept(side, p, t, must) - a program read      *)
(* packet p from its tun device at time t and accepted it (did not discard it); *)
(* must = p fits in 16 fragments;  Write(side, p, t) - packet p was written to  *)
(* side's tun device;  Exit - a program terminated;  End(t) - end of the run.   *)
(* mode "clean": the path delivered every datagram intact and promptly for the  *)
(*   whole run: every must-packet is written exactly once, in the order         *)
(*   accepted, within Bound of its acceptance; nothing else is written.         *)
(* mode "faulty": after a fault prefix and a settle period, packets accepted    *)
(*   with post = TRUE must be written (at least once) within Bound.             *)
(* In both modes neither program may exit.                                      *)
(* Offer(side, p, t) - packet p became readable on side's tun device (clean     *)
(*   path, or after the settle period); Take(side, p, t) - the program read it. *)
(*   A program that stops reading its tun device for longer than Bound although *)
(*   the path is healthy is wedged just as one that reads and never delivers.   *)
EXTENDS Naturals, Sequences

CONSTANTS Sides, Bound

VARIABLES mode,     \* "clean" | "faulty"
          offered,  \* offered[s] = set of [p, dl]: readable on s's tun device, not yet read
          due       \* due[s] = sequence of [p, dl, must] accepted from side s's peer direction, oldest first

MPInit == mode = "clean" /\ due = [s \in Sides |-> <<>>] /\ offered = [s \in Sides |-> {}]

Mode(m) == mode' = m /\ due' = [s \in Sides |-> <<>>] /\ offered' = [s \in Sides |-> {}]

NoneOverdue(t) == /\ \A s \in Sides : \A i \in 1..Len(due[s]) : due[s][i].must => due[s][i].dl >= t
                  /\ \A s \in Sides : \A o \in offered[s] : o.dl >= t

Offer(s, p, t) == /\ NoneOverdue(t)
                  /\ offered' = [offered EXCEPT ![s] = @ \cup {[p |-> p, dl |-> t + Bound]}]
                  /\ UNCHANGED <<mode, due>>

Take(s, p, t) == /\ NoneOverdue(t)
                 /\ offered' = [offered EXCEPT ![s] = {o \in @ : o.p # p}]
                 /\ UNCHANGED <<mode, due>>

\* packet p accepted at time t on the tun of `from`, destined to side `to`
Accept(to, p, t, must) ==
    /\ NoneOverdue(t)
    /\ due' = [due EXCEPT ![to] = Append(@, [p |-> p, dl |-> t + Bound, must |-> must])]
    /\ UNCHANGED <<mode, offered>>

Pos(s, p) == CHOOSE i \in 1..Len(due[s]) : due[s][i].p = p /\ \A j \in 1..(i - 1) : due[s][j].p # p
Has(s, p) == \E i \in 1..Len(due[s]) : due[s][i].p = p

Write(s, p, t) ==
    /\ NoneOverdue(t)
    /\ IF mode = "clean"
       THEN /\ Has(s, p)                                   \* exactly once: it is still due
            /\ \A j \in 1..(Pos(s, p) - 1) : ~due[s][j].must   \* in order: only optional ones are skipped
            /\ due' = [due EXCEPT ![s] = SubSeq(@, Pos(s, p) + 1, Len(@))]
       ELSE due' = [due EXCEPT ![s] = SelectSeq(@, LAMBDA x : x.p # p)]
    /\ UNCHANGED <<mode, offered>>

End(t) == /\ NoneOverdue(t)
          /\ (\A s \in Sides : \A i \in 1..Len(due[s]) : ~due[s][i].must)
          /\ UNCHANGED <<mode, due, offered>>

MPReset == mode' = "clean" /\ due' = [s \in Sides |-> <<>>] /\ offered' = [s \in Sides |-> {}]
=============================================================================
