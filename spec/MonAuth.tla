------------------------------- MODULE MonAuth -------------------------------
(* Property monitor for C03.  Observables:                                      *)
(*   NewSession(u)   the server acknowledged a version request: slot u has a    *)
(*                   new challenge                                              *)
(*   GoodLogin(u)    the server received a login message naming slot u whose 16 *)
(*                   response bytes are MD5(password xor u's CURRENT challenge) *)
(*                   (computed by the harness's own MD5 from the VACK on the    *)
(*                   wire); from any source - the monitor is permissive         *)
(*   Priv(k, u)      the server did something privileged on behalf of slot u:   *)
(*                   wrote a packet to its tun device, forwarded a packet to    *)
(*                   another client, disclosed its address, changed codec /     *)
(*                   options / fragment size, or switched the session to raw    *)
(* A privileged act is allowed only for a slot whose current challenge has been *)
(* answered.                                                                    *)
EXTENDS Naturals

CONSTANT Users
VARIABLE answered
MAuInit == answered = [u \in Users |-> FALSE]
NewSession(u) == u \in Users /\ answered' = [answered EXCEPT ![u] = FALSE]
GoodLogin(u) == u \in Users /\ answered' = [answered EXCEPT ![u] = TRUE]
Priv(k, u) == u \in Users /\ answered[u] /\ UNCHANGED answered
MAuReset == answered' = [u \in Users |-> FALSE]
=============================================================================
