SPECIFICATION TraceSpec
CONSTANTS
  Domains <- DomainList
POSTCONDITION TraceAccepted
CHECK_DEADLOCK FALSE
