SPECIFICATION TraceSpec
CONSTANTS
  Sides = {"S", "C0", "C1", "C2"}
  Bound = 30000
POSTCONDITION TraceAccepted
CHECK_DEADLOCK FALSE
