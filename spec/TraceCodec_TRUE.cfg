SPECIFICATION TraceSpec
CONSTANTS
  MaxLen = 0
  ByteSet = {0}
  STRICT = TRUE
POSTCONDITION TraceAccepted
CHECK_DEADLOCK FALSE
