------------------------------ MODULE MonIntegrity ------------------------------
(* Property monitor for C01 (end-to-end integrity), Layer B.                    *)
(* Observables only: packets read from a tun device (Offer) and packets written *)
(* to a tun device (Write).  A packet is identified by the harness by exact     *)
(* byte equality with an injected frame; a written buffer equal to no injected  *)
(* frame carries the id Fabricated, for which Write is never enabled.           *)
(* The behaviours of this spec are exactly the observable executions in which   *)
(* C01 holds: drop and repeat are allowed, fabricate/truncate/merge/corrupt not.*)
EXTENDS Naturals, FiniteSets

CONSTANTS Sides,        \* e.g. {"S", "C0", "C1"}
          Fabricated    \* id used for a written buffer equal to no injected frame

VARIABLE offered        \* offered[s] = set of packet ids read so far from the tun of side s

MIInit == offered = [s \in Sides |-> {}]

Offer(s, p) == /\ s \in Sides
               /\ offered' = [offered EXCEPT ![s] = @ \cup {p}]

\* side s writes packet p to its tun: p must have been read from another side's tun
Write(s, p) == /\ s \in Sides
               /\ p # Fabricated
               /\ \E o \in Sides \ {s} : p \in offered[o]
               /\ UNCHANGED offered

MIReset == offered' = [s \in Sides |-> {}]
=============================================================================
