SPECIFICATION TraceSpec
CONSTANTS
  RING = 16
  Srcs = {1, 2, 3, 4}
  Ids = {0}
  MaxHist = 0
POSTCONDITION TraceAccepted
CHECK_DEADLOCK FALSE
