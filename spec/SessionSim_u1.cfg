SPECIFICATION SimSpec
CONSTANTS
  USERS = 1
  Srcs = {1, 2, 3, 4}
  EXP = 60
  CheckIp = TRUE
  Dts = {1}
  OUTCAP = 5
  MaxSeeds = 12
  CodecArgs = {"b32", "b64", "b64u", "b128", "bad"}
  OptArgs = {"T", "S", "U", "V", "R", "L", "I", "bad"}
  FragArgs = {1, 60, 200}
  HLEN = 40
INVARIANT Emit
CHECK_DEADLOCK FALSE
