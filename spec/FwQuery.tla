------------------------------- MODULE FwQuery -------------------------------
(* Layer A: the forwarded-query memory of iodined (src/fw_query.c, used by      *)
(* forward_query / tunnel_bind in src/iodined.c).  A ring of RING (addr, id)    *)
(* pairs, zero-initialised, written round-robin; a reply is routed to the addr  *)
(* of the FIRST slot (in array order) whose id equals the reply's id.           *)
EXTENDS Naturals, Sequences, FiniteSets

CONSTANTS RING, Srcs, Ids, MaxHist
NoAddr == 0

VARIABLES ring, ix, hist, act      \* hist: ghost, the RING most recent forwards <<src, id>>; act: last action + its effect
vars == <<ring, ix, hist, act>>

Init == /\ ring = [i \in 0..(RING - 1) |-> [addr |-> NoAddr, id |-> 0]]
        /\ ix = 0 /\ hist = <<>> /\ act = [a |-> "init"]

\* a non-tunnel query (src, id) is relayed to the local DNS port with the same id
Forward(src, id) ==
    /\ ring' = [ring EXCEPT ![ix] = [addr |-> src, id |-> id]]
    /\ ix' = (ix + 1) % RING
    /\ hist' = LET h == Append(hist, <<src, id>>) IN IF Len(h) > RING THEN Tail(h) ELSE h
    /\ act' = [a |-> "Forward", src |-> src, id |-> id, outid |-> id]

Match(id) == {i \in 0..(RING - 1) : ring[i].id = id}
First(S) == CHOOSE i \in S : \A j \in S : i <= j

\* a reply with this id arrives from the local DNS port
Reply(id) ==
    /\ act' = [a |-> "Reply", id |-> id,
               to |-> IF Match(id) = {} THEN NoAddr ELSE ring[First(Match(id))].addr,
               sent |-> Match(id) # {}]
    /\ UNCHANGED <<ring, ix, hist>>

Next == \/ \E s \in Srcs, i \in Ids : Forward(s, i)
        \/ \E i \in Ids : Reply(i)
Spec == Init /\ [][Next]_vars
Bound == Len(hist) <= MaxHist

-----------------------------------------------------------------------------
Recent == hist
RecentIds == {Recent[i][2] : i \in 1..Len(Recent)}
Distinct == \A i, j \in 1..Len(Recent) : i # j => Recent[i][2] # Recent[j][2]
Asker(id) == LET i == CHOOSE i \in 1..Len(Recent) : Recent[i][2] = id IN Recent[i][1]

\* C20: among the RING most recent forwards with pairwise distinct ids the reply goes to the asker; a reply
\* whose id is held by no remembered forward reaches no requester
RoutedToAsker ==
    act.a = "Reply" =>
        /\ (Distinct /\ act.id \in RecentIds) => (act.sent /\ act.to = Asker(act.id))
        /\ act.id \notin RecentIds => act.to \notin Srcs
\* the relayed query keeps its id
SameId == act.a = "Forward" => act.outid = act.id
\* the ring holds exactly the RING most recent forwards
RingIsRecent == {<<ring[i].addr, ring[i].id>> : i \in {j \in 0..(RING - 1) : ring[j].addr # NoAddr}}
                  = {Recent[i] : i \in 1..Len(Recent)}
=============================================================================
