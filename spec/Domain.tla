------------------------------- MODULE Domain -------------------------------
(* Layer C, property C17, written from the statement of the property (not from  *)
(* src/common.c): validity of a tunnel domain and label-boundary suffix         *)
(* matching of query names, on strings given as sequences of character codes.   *)
EXTENDS Integers, Sequences, FiniteSets

DOT == 46
STAR == 42
IsLetter(c) == (c >= 97 /\ c <= 122) \/ (c >= 65 /\ c <= 90)
IsDigit(c) == c >= 48 /\ c <= 57
DomChar(c) == IsLetter(c) \/ IsDigit(c) \/ c = 45 \/ c = DOT
Lower(c) == IF c >= 65 /\ c <= 90 THEN c + 32 ELSE c

\* positions of the dots, and the label lengths they delimit
Dots(s) == {i \in 1..Len(s) : s[i] = DOT}
\* s has no empty label: no leading, trailing or consecutive dots (and is not empty)
NoEmptyLabel(s) == /\ Len(s) >= 1 /\ s[1] # DOT /\ s[Len(s)] # DOT
                   /\ \A i \in 1..(Len(s) - 1) : ~(s[i] = DOT /\ s[i + 1] = DOT)
\* every maximal dot-free run is at most 63 long
LabelsShort(s) == \A i \in 1..(Len(s) - 63) : \E k \in i..(i + 63) : s[k] = DOT     \* every 64-char window holds a dot

\* "3..128 characters of letters, digits, '-' and '.', at least two non-empty labels of at most 63 characters,
\*  and (server only) may start with a single '*.' wildcard label"
ValidDomain(s, allowWild) ==
    LET wild == allowWild /\ Len(s) >= 2 /\ s[1] = STAR /\ s[2] = DOT
        body == IF wild THEN SubSeq(s, 3, Len(s)) ELSE s
    IN /\ Len(s) >= 3 /\ Len(s) <= 128
       /\ \A i \in 1..Len(body) : DomChar(body[i])
       /\ NoEmptyLabel(body)
       /\ (wild \/ Dots(body) # {})                 \* at least two labels (the wildcard label counts as one)
       /\ LabelsShort(body)

EqCI(a, b) == Len(a) = Len(b) /\ \A i \in 1..Len(a) : Lower(a[i]) = Lower(b[i])
Suffix(s, m) == SubSeq(s, Len(s) - m + 1, Len(s))

\* data length of query name q under plain domain d, -1 if q is not under d
MatchPlain(q, d) ==
    LET n == Len(q) m == Len(d) IN
    IF n >= m /\ EqCI(Suffix(q, m), d) /\ (n = m \/ q[n - m] = DOT) THEN n - m ELSE -1

\* wildcard domain "*." \o rest: the label in front of ".rest" must be one non-empty star-free label
MatchWild(q, rest) ==
    LET n == Len(q) m == Len(rest) + 1            \* length of ".rest"
        tailok == n > m /\ EqCI(Suffix(q, m), <<DOT>> \o rest)
        e == n - m                                \* last position of the wildcard-matched label
        starts == {i \in 1..e : \A k \in i..e : q[k] # DOT}
        st == IF starts = {} THEN 0 ELSE CHOOSE i \in starts : \A j \in starts : i <= j
    IN IF tailok /\ e >= 1 /\ st >= 1 /\ (\A k \in st..e : q[k] # STAR) /\ (st = 1 \/ q[st - 1] = DOT)
       THEN st - 1 ELSE -1

Match(q, d) == IF Len(d) >= 2 /\ d[1] = STAR /\ d[2] = DOT THEN MatchWild(q, SubSeq(d, 3, Len(d)))
               ELSE MatchPlain(q, d)

\* recorded calls
ValidOK(e) == (e.ret = 0) <=> ValidDomain(e.s, e.allow)
CONSTANT Domains                   \* sequence of domains the Match events refer to (index = position in rets)
MatchOK(e) == \A k \in 1..Len(Domains) : e.rets[k] = Match(e.name, Domains[k])
MatchOneOK(e) == e.ret = Match(e.name, e.dom)
\* the real server treats a query as tunnel traffic (does not forward it) exactly when it matches
DispatchOK(e) == e.forwarded <=> (Match(e.name, e.dom) = -1)

VARIABLE n
DInit == n = 0
Spec == DInit /\ [][FALSE]_n
=============================================================================
