--------------------------- MODULE TraceMonServing ---------------------------
EXTENDS MonServing, TraceBase
VARIABLE l
tvars == <<n, l>>
TInit == MSInit /\ l = 1
Ev == TraceLog[l]
IsEvent(e) == l <= TraceLen /\ Ev.e = e /\ l' = l + 1
THostile == IsEvent("Hostile") /\ Hostile(Ev.changed, Ev.stray)
TProbe == IsEvent("Probe") /\ Probe(Ev.u, Ev.ok)
TRefusal == IsEvent("Refusal") /\ Refusal(Ev.gone)
TReset == IsEvent("Reset") /\ MSReset
TNext == THostile \/ TProbe \/ TRefusal \/ TReset
TraceSpec == TInit /\ [][TNext]_tvars
TraceAccepted ==
    LET d == TLCGet("stats").diameter IN
    /\ PrintT(<<"TRACE_REACHED", d - 1, TraceLen>>)
    /\ d - 1 = TraceLen
=============================================================================
