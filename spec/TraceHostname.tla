---------------------------- MODULE TraceHostname ----------------------------
EXTENDS Hostname, TraceBase
VARIABLE l
tvars == <<n, l>>
TInit == HInit /\ l = 1
Ev == TraceLog[l]
IsEvent(e) == l <= TraceLen /\ Ev.e = e /\ l' = l + 1 /\ UNCHANGED n
THost == IsEvent("Host") /\ HostOK(Ev)
TWire == IsEvent("Wire") /\ WireOK(Ev)
TExtract == IsEvent("Extract") /\ ExtractOK(Ev)
TUpPacket == IsEvent("UpPacket") /\ UpPacketOK(Ev)
TReset == IsEvent("Reset")
TNext == THost \/ TWire \/ TExtract \/ TUpPacket \/ TReset
TraceSpec == TInit /\ [][TNext]_tvars
TraceAccepted ==
    LET d == TLCGet("stats").diameter IN
    /\ PrintT(<<"TRACE_REACHED", d - 1, TraceLen>>)
    /\ d - 1 = TraceLen
=============================================================================
