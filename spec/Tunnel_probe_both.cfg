SPECIFICATION Spec
CONSTANTS
  SEQMOD = 8
  FRAGMOD = 16
  RECENT = 4
  UpLens <- Len2
  DnLens <- Len2
  CAPUP = 1
  FRAGSIZE = 1
  CACHE = 2
  QMEMD = 2
  QMEMP = 3
  OUTQ = 1
  SRVRESEND = 5
  CLIRESEND = 3
  LAZY = TRUE
  MaxLoss = 1
  MaxDup = 1
  MaxQ = 6
  MaxTO = 1
  PROMPT = FALSE
INVARIANTS
  NotBothDelivered
CHECK_DEADLOCK FALSE
ALIAS Brief
