----------------------------- MODULE TraceMonFwd -----------------------------
EXTENDS MonFwd, TraceBase
VARIABLE l
tvars == <<recent, l>>
TInit == MFInit /\ l = 1
Ev == TraceLog[l]
IsEvent(e) == l <= TraceLen /\ Ev.e = e /\ l' = l + 1
TFwd == IsEvent("Fwd") /\ Fwd(Ev.src, Ev.id, Ev.nout, Ev.outid, Ev.sameq)
TReply == IsEvent("Reply") /\ Reply(Ev.id, Ev.nsent, Ev.to, Ev.same)
TReset == IsEvent("Reset") /\ MFReset
TNext == TFwd \/ TReply \/ TReset
TraceSpec == TInit /\ [][TNext]_tvars
TraceAccepted ==
    LET d == TLCGet("stats").diameter IN
    /\ PrintT(<<"TRACE_REACHED", d - 1, TraceLen>>)
    /\ d - 1 = TraceLen
=============================================================================
