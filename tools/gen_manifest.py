#!/usr/bin/env python3
"""Regenerates /verif/MANIFEST.json from the table below (single source of truth)."""
import json
import os

VERIF = os.path.dirname(os.path.dirname(os.path.abspath(__file__)))

SIM_NOTE = ("Assumes: the wrapped libc boundary behaves like Linux UDP/tun (A-sim); the independent parser used "
            "for abstraction is correct (A-parse); TLC/JVM/sanitizers trusted; exhaustive results hold for the "
            "stated small constants only, simulated executions are samples.")

CHECKS = {
    "C01": dict(cat="model_checking", ref="DESIGN.md §6 C01",
                text="TLC model-checks the implementation-shaped Tunnel spec (Integrity invariants) at small constants; "
                     "real iodine+iodined run in the simulation harness over configurations x packets x fault schedules and "
                     "every tun write is judged by TLC against the MonIntegrity monitor (trace validation); every iteration of the "
                     "real server and client loops in those runs is validated by TLC against Tunnel.tla itself (TraceTunnelSrv / "
                     "TraceTunnelCli, full state projection; drift only).",
                technique="TLA+ spec + TLC model checking; TLC trace validation of real executions (MonIntegrity; Layer A binding to Tunnel.tla)"),
    "C14": dict(cat="model_checking", ref="DESIGN.md §6 C14",
                text="TLC checks NoSurplus/HeldAtMostTwo on the Tunnel spec; every answer the real server emits in simulated "
                     "runs (loss/dup/delay/re-ask with new ids) is matched by TLC against the MonAnswers monitor; the same runs are "
                     "bound to Tunnel.tla step by step (TraceTunnelSrv / TraceTunnelCli; drift only).",
                technique="TLA+ spec + TLC model checking; TLC trace validation of real executions (MonAnswers; Layer A binding to Tunnel.tla)"),
    "C15": dict(cat="model_checking", ref="DESIGN.md §6 C15",
                text="TLC checks FragBound/FragNumbering on the Tunnel spec; every downstream data answer of the real server "
                     "is judged by TLC against the MonFragsize monitor (size bound, numbering, last flag).",
                technique="TLA+ spec + TLC model checking; TLC trace validation of real executions (MonFragsize)"),
    "C02": dict(cat="model_checking", ref="DESIGN.md §6 C02",
                text="TLC checks InOrderOnce and DoneDelivered (no silent loss on a prompt, in-order path, with spurious "
                     "timeouts) on the Tunnel spec; real runs are judged on virtual time by the MonProgress monitor: strict "
                     "exactly-once/in-order/30 s deadline on clean paths, delivery within 30 s after fault prefix + 15 s settle, no exit.",
                technique="TLA+ spec + TLC model checking; TLC trace validation of timed real executions (MonProgress)"),
    "C16": dict(cat="model_checking", ref="DESIGN.md §6 C16",
                text="TLC explores duplicate deliveries (same/new id, flipped case) on the Tunnel spec (invariant NeverTwice: a step that "
                     "consumes a query the server has recently seen moves no stream position); in simulated runs a relay "
                     "re-delivers chosen queries at chosen distances and TLC judges each against the MonRedelivery monitor "
                     "(stream positions from users[] unchanged inside the windows, cached repeat answered with the same payload); the runs "
                     "are bound to Tunnel.tla step by step (TraceTunnelSrv / TraceTunnelCli; drift only).",
                technique="TLA+ spec + TLC model checking; TLC trace validation of real executions (MonRedelivery; Layer A binding to Tunnel.tla)"),
}

CHECKS.update({
    "C03": dict(cat="model_checking", ref="DESIGN.md §6 C03",
                text="TLC model-checks spec/Session.tla (every command x every userid x every source x Good/Stale/Wrong "
                     "claims x clock advances across the expiry; PrivilegedOnlyIfAnswered, AuthedImpliesAnswered, "
                     "RawImpliesAuthed); TLC-generated message histories (MCSessionSim, -simulate) are concretised and sent "
                     "to the real iodined by scripted peers; TLC judges every privileged act against MonAuth and validates "
                     "every execution against Session.tla itself (full users[] projection after each step).",
                technique="TLA+ spec (Session.tla) + TLC model checking; TLC-generated histories replayed into the real server; "
                          "TLC trace validation against MonAuth and against Session.tla"),
    "C04": dict(cat="model_checking", ref="DESIGN.md §6 C04",
                text="TLC model-checks spec/Session.tla (SpoofRefused, RebindOnlyByRawLogin, Routing, ForwardOnlyToOwner, "
                     "NoTakeover, ExpiredRefused, ExpiredReusable, LookupExact); the TLC-generated histories (with 29..61 s "
                     "ticks around the expiry, source checking on and off, 1 and 5 slots) run on the real iodined and are judged "
                     "by TLC against MonIsolation and bound to Session.tla.",
                technique="TLA+ spec (Session.tla) + TLC model checking; TLC-generated histories replayed into the real server; "
                          "TLC trace validation against MonIsolation and Session.tla"),
    "C05": dict(cat="exploration", ref="DESIGN.md §6 C05",
                text="Session.tla is model-checked with an Opaque (non-request datagram) action enabled in every state; the "
                     "TLC-generated histories bring the real, ASan+UBSan-instrumented iodined into handshake/transfer/lazy/raw "
                     "states and bursts of generated hostile datagrams and tun packets are injected in between; memory safety "
                     "and UB are observed by the sanitizers, bounded time by the step watchdog, 'keeps serving / other sessions "
                     "unaffected' is judged by TLC against MonServing and the Session.tla binding.",
                technique="TLA+ spec-generated histories + sanitizer-instrumented execution; TLC trace validation (MonServing, "
                          "Session.tla); memory safety itself is observed by ASan/UBSan, not specified"),
    "C06": dict(cat="exploration", ref="DESIGN.md §6 C06",
                text="The real client (ASan+UBSan) talks to the real server through a man in the middle that injects generated "
                     "replies at every handshake step and during tunnelling (arbitrary bytes, hostile answer sections for every "
                     "record type, every codec prefix, wrong ids, raw frames, mutations); 'unmatched replies are ignored' is "
                     "judged by TLC against MonClientSafe; memory safety is observed by the sanitizers.",
                technique="sanitizer-instrumented execution of the real client under generated replies; TLC trace validation "
                          "(MonClientSafe); memory safety itself is observed by ASan/UBSan, not specified"),
    "C12": dict(cat="exploration", ref="DESIGN.md §6 C12",
                text="Self-composition: each execution (server: truncated / pointer-edited queries after a victim's long query in "
                     "TLC-generated session states; client: truncated / RDLENGTH-edited answers at handshake and tunnel steps) is run "
                     "with different receive-buffer residues (zeros / tail of the previous datagram / 0xA5) and TLC accepts a step "
                     "only if every output agrees (MonResidue).",
                technique="differential (self-composition) execution over receive-buffer residues; TLC trace validation (MonResidue)"),
    "C13": dict(cat="exploration", ref="DESIGN.md §6 C13",
                text="spec/Shell.tla states the grammar of permitted command lines; TLC checks over all field strings <= 4 chars of "
                     "an attack alphabet that exactly strictly validated fields yield valid commands; generated login replies "
                     "(attack strings in all four fields, every query type and downstream encoding) are served to the real client "
                     "and every system() command line is parsed character by character by TLC (TraceShell).",
                technique="TLA+ grammar spec (Shell.tla) checked by TLC; TLC trace validation of every system() command line of the real client"),
})

FN_NOTE = ("Assumes: TLC/JVM (and the CommunityModules Java overrides) trusted; the driver links the objects built from /repo's "
           "current working tree; exhaustive claims hold for the stated small domains only, larger inputs are seeded samples.")
CHECKS.update({
    "C07": dict(cat="exploration", ref="DESIGN.md §6 C07", note=FN_NOTE,
                text="spec/Codec.tla defines the four codecs from the protocol document; TLC proves the reference lossless / "
                     "alphabet-pure for all short inputs, and evaluates the C07 predicates (capacity respected incl. guard bytes, "
                     "alphabet, reported prefix decodes exactly with the reference AND the real decoder, ratio, progress, chunk "
                     "tiling, decoder capacity) on every recorded call of the real entry points: exhaustive for <= 1 byte x all "
                     "capacities and all/sampled byte pairs, byte pairs in every block position, every/sampled length 0..4096.",
                technique="TLA+ function spec (Codec.tla) as executable reference; TLC trace validation of recorded encoder/decoder calls"),
    "C08": dict(cat="exploration", ref="DESIGN.md §6 C08", note=FN_NOTE,
                text="spec/Hostname.tla (over Codec.tla and Domain.tla): TLC judges every build_hostname() event (all L in 100..255 x "
                     "domain lengths x 4 codecs x payload-length classes) - legal name, <= L, ends in the domain, reported prefix "
                     "decodes exactly, server-side extraction (dns_encode -> dns_decode -> query_datalen -> unpack_data, plain and "
                     "wildcard-served) returns the same prefix - and every query name of the real client in simulated sessions.",
                technique="TLA+ function spec (Hostname.tla); TLC trace validation of recorded builder/extraction calls and wire names"),
    "C09": dict(cat="exploration", ref="DESIGN.md §6 C09", note=FN_NOTE,
                text="The REAL pipe write_dns() (iodined.c) -> wire -> read_dns_withq() (client.c) is driven for payload lengths "
                     "2..4096 x 7 record types x legal downstream codecs x shortest/longest name x 4 contents; TLC (Downstream.tla) "
                     "regenerates each payload and accepts only exact / proper-prefix / empty results and exactness monotone in length.",
                technique="TLA+ spec (Downstream.tla); TLC trace validation of the recorded real downstream pipe"),
    "C10": dict(cat="exploration", ref="DESIGN.md §6 C10", note=FN_NOTE,
                text="spec/DnsWire.tla is a strict RFC 1035 parser in TLA+ (counts, labels, names <= 255, backward pointers to label "
                     "boundaries of earlier names, RDLENGTH = data size, TXT tiling, no trailing bytes) plus Echoes / NS / A predicates; "
                     "TLC parses every sampled datagram of simulated sessions, the real answer writer's output across type x codec x "
                     "size, and the auxiliary NS/A answers of the real server.",
                technique="TLA+ spec (DnsWire.tla, a strict parser); TLC trace validation of emitted datagrams as integer sequences"),
    "C11": dict(cat="model_checking", ref="DESIGN.md §6 C11",
                text="spec/Negotiation.tla models the client's handshake decision procedure against the whole relay family "
                     "(12.2M states: Sound*, Complete); the real client+server run through relays of the family (quick: covering "
                     "sample, thorough: all); completeness judged by MonNegotiation, soundness by offering packets afterwards "
                     "(MonProgress clean mode, MonIntegrity); every real negotiation outcome is validated against the model's "
                     "prediction (binding, zero drift). Two known findings (Raw test pattern lacks '+', forced -O untested).",
                technique="TLA+ spec (Negotiation.tla) + TLC model checking over the relay family; TLC trace validation of real "
                          "handshakes/transfers (MonNegotiation, MonProgress, MonIntegrity, TraceNegotiation)"),
    "C17": dict(cat="exploration", ref="DESIGN.md §6 C17", note=FN_NOTE,
                text="spec/Domain.tla is written from the statement; TLC compares every check_topdomain()/query_datalen() result - "
                     "exhaustively over all strings of a 7-character alphabet (validation to length 7 / matching to length 8 thorough), "
                     "boundary and random long cases - and the real server's forward-or-tunnel decision with the definition.",
                technique="TLA+ function spec (Domain.tla); TLC trace validation of exhaustive recorded calls and server dispatch"),
    "C18": dict(cat="exploration", ref="DESIGN.md §6 C18", note=FN_NOTE,
                text="spec/AddrPool.tla (octet arithmetic); TLC judges init_users() for every host position of /16../30 (thorough) "
                     "and sampled /8../15, find_user_by_ip() under generated slot states, and the mask range check of the real main(); "
                     "the lookup half is also an invariant of Session.tla.",
                technique="TLA+ function spec (AddrPool.tla); TLC trace validation of exhaustive recorded calls"),
    "C19": dict(cat="exploration", ref="DESIGN.md §6 C19", note=FN_NOTE,
                text="spec/MD5.tla implements RFC 1321 in TLA+ (validated against the RFC test suite) and Login.tla the documented "
                     "response; TLC recomputes every login_calculate() result (passwords 0..40 bytes, boundary and random "
                     "challenges, differential pairs) and the login / raw-login (seed+1) / raw-reply (seed-1) bytes of real sessions.",
                technique="TLA+ implementation of MD5 + login response as independent oracle; TLC trace validation of recorded calls and wire messages"),
    "C20": dict(cat="model_checking", ref="DESIGN.md §6 C20",
                text="TLC model-checks spec/FwQuery.tla exhaustively (RoutedToAsker, SameId, RingIsRecent); ALL histories of the model "
                     "to depth 3/4 and simulated 60-step histories (ring of 16, id reuse, > 16 outstanding) are exported from TLC and "
                     "executed on the real iodined -b with scripted requesters and resolver; judged by MonFwd, bound to FwQuery.tla.",
                technique="TLA+ spec (FwQuery.tla) + TLC model checking; all TLC paths replayed into the real server; TLC trace validation"),
})

NOT_YET = "check not built yet in this revision (work in progress; see DESIGN.md §6 for the plan)"


def main():
    props = [json.loads(l)["id"] for l in open(os.path.join(VERIF, "properties.jsonl"))]
    checks = []
    na = []
    for p in props:
        c = CHECKS.get(p)
        if not c:
            na.append({"property_id": p, "reason": NOT_YET})
            continue
        checks.append({
            "property_id": p,
            "quick_cmd": "bin/check %s --tier quick" % p,
            "thorough_cmd": "bin/check %s --tier thorough" % p,
            "evidence_file": "/verif/evidence/%s.json" % p,
            "replay_cmd_template": "bin/check %s --replay {path}" % p,
            "engine": "tlc+simk" if p not in ("C07", "C08", "C09", "C17", "C18", "C19") else "tlc+drivers",
            "level_claimed": {"category": c["cat"], "text": c["text"], "design_ref": c["ref"]},
            "level_note": c.get("note", SIM_NOTE),
            "technique": c["technique"],
        })
    man = {
        "version": 1,
        "setup_cmd": "bin/setup",
        "hooks": {"guard": "IODINE_VERIF", "enable": "-DIODINE_VERIF passed by tools/build.py to every compile of /repo/src "
                  "(currently guards nothing: no source hooks were needed, all observation is at the wrapped libc boundary "
                  "and the exported users[] table)",
                  "baseline_off_cmd": "make -C /repo clean >/dev/null; make -C /repo test",
                  "source_commits": [], "add_only": True},
        "engines": [{"name": "tlc+drivers", "path": "/verif/bin/check",
                     "serves_properties": [c["property_id"] for c in checks if c["engine"] == "tlc+drivers"],
                     "kind_free_text": "Layer-C function specs in TLA+ (Codec, Hostname, Downstream, Domain, AddrPool, MD5/Login); "
                                       "C drivers (harness/drv_*.c) linked against objects built from /repo record call events; TLC "
                                       "judges every event (sharded trace validation)"},
                    {"name": "tlc+simk", "path": "/verif/bin/check",
                     "serves_properties": [c["property_id"] for c in checks if c["engine"] == "tlc+simk"],
                     "kind_free_text": "explicit TLA+ specs (spec/*.tla) checked with TLC; real iodine/iodined main()s run in a "
                                       "deterministic simulation kernel (harness/simk.c, ld --wrap) driven from pylib/world.py; "
                                       "recorded executions validated by TLC against monitor specs"}],
        "checks": checks,
        "not_applicable": na,
        "notes": "See DESIGN.md. known_findings.json lists genuine defects (open / fixed).",
    }
    with open(os.path.join(VERIF, "MANIFEST.json"), "w") as f:
        json.dump(man, f, indent=1)
    print("MANIFEST.json: %d checks, %d not claimed" % (len(checks), len(na)))


if __name__ == "__main__":
    main()
