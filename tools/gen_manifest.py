#!/usr/bin/env python3
"""Regenerates /verif/MANIFEST.json from the table below (single source of truth)."""
import json
import os

VERIF = os.path.dirname(os.path.dirname(os.path.abspath(__file__)))

SIM_NOTE = ("Assumes: the wrapped libc boundary behaves like Linux UDP/tun (A-sim); the independent parser used "
            "for abstraction is correct (A-parse); TLC/JVM/sanitizers trusted; exhaustive results hold for the "
            "stated small constants only, simulated executions are samples.")

CHECKS = {
    "C01": dict(cat="model_checking", ref="DESIGN.md §6 C01",
                text="TLC model-checks the implementation-shaped Tunnel spec (Integrity invariants) at small constants; "
                     "real iodine+iodined run in the simulation harness over configurations x packets x fault schedules and "
                     "every tun write is judged by TLC against the MonIntegrity monitor (trace validation).",
                technique="TLA+ spec + TLC model checking; TLC trace validation of real executions (MonIntegrity)"),
    "C14": dict(cat="model_checking", ref="DESIGN.md §6 C14",
                text="TLC checks NoSurplus/HeldAtMostTwo on the Tunnel spec; every answer the real server emits in simulated "
                     "runs (loss/dup/delay/re-ask with new ids) is matched by TLC against the MonAnswers monitor.",
                technique="TLA+ spec + TLC model checking; TLC trace validation of real executions (MonAnswers)"),
    "C15": dict(cat="model_checking", ref="DESIGN.md §6 C15",
                text="TLC checks FragBound/FragNumbering on the Tunnel spec; every downstream data answer of the real server "
                     "is judged by TLC against the MonFragsize monitor (size bound, numbering, last flag).",
                technique="TLA+ spec + TLC model checking; TLC trace validation of real executions (MonFragsize)"),
    "C02": dict(cat="model_checking", ref="DESIGN.md §6 C02",
                text="TLC checks InOrderOnce and DoneDelivered (no silent loss on a prompt, in-order path, with spurious "
                     "timeouts) on the Tunnel spec; real runs are judged on virtual time by the MonProgress monitor: strict "
                     "exactly-once/in-order/30 s deadline on clean paths, delivery within 30 s after fault prefix + 15 s settle, no exit.",
                technique="TLA+ spec + TLC model checking; TLC trace validation of timed real executions (MonProgress)"),
    "C16": dict(cat="model_checking", ref="DESIGN.md §6 C16",
                text="TLC explores duplicate deliveries (same/new id, flipped case) on the Tunnel spec; in simulated runs a relay "
                     "re-delivers chosen queries at chosen distances and TLC judges each against the MonRedelivery monitor "
                     "(stream positions from users[] unchanged inside the windows, cached repeat answered with the same payload).",
                technique="TLA+ spec + TLC model checking; TLC trace validation of real executions (MonRedelivery)"),
}

CHECKS.update({
    "C03": dict(cat="model_checking", ref="DESIGN.md §6 C03",
                text="TLC model-checks spec/Session.tla (every command x every userid x every source x Good/Stale/Wrong "
                     "claims x clock advances across the expiry; PrivilegedOnlyIfAnswered, AuthedImpliesAnswered, "
                     "RawImpliesAuthed); TLC-generated message histories (MCSessionSim, -simulate) are concretised and sent "
                     "to the real iodined by scripted peers; TLC judges every privileged act against MonAuth and validates "
                     "every execution against Session.tla itself (full users[] projection after each step).",
                technique="TLA+ spec (Session.tla) + TLC model checking; TLC-generated histories replayed into the real server; "
                          "TLC trace validation against MonAuth and against Session.tla"),
    "C04": dict(cat="model_checking", ref="DESIGN.md §6 C04",
                text="TLC model-checks spec/Session.tla (SpoofRefused, RebindOnlyByRawLogin, Routing, ForwardOnlyToOwner, "
                     "NoTakeover, ExpiredRefused, ExpiredReusable, LookupExact); the TLC-generated histories (with 29..61 s "
                     "ticks around the expiry, source checking on and off, 1 and 5 slots) run on the real iodined and are judged "
                     "by TLC against MonIsolation and bound to Session.tla.",
                technique="TLA+ spec (Session.tla) + TLC model checking; TLC-generated histories replayed into the real server; "
                          "TLC trace validation against MonIsolation and Session.tla"),
    "C05": dict(cat="exploration", ref="DESIGN.md §6 C05",
                text="Session.tla is model-checked with an Opaque (non-request datagram) action enabled in every state; the "
                     "TLC-generated histories bring the real, ASan+UBSan-instrumented iodined into handshake/transfer/lazy/raw "
                     "states and bursts of generated hostile datagrams and tun packets are injected in between; memory safety "
                     "and UB are observed by the sanitizers, bounded time by the step watchdog, 'keeps serving / other sessions "
                     "unaffected' is judged by TLC against MonServing and the Session.tla binding.",
                technique="TLA+ spec-generated histories + sanitizer-instrumented execution; TLC trace validation (MonServing, "
                          "Session.tla); memory safety itself is observed by ASan/UBSan, not specified"),
    "C06": dict(cat="exploration", ref="DESIGN.md §6 C06",
                text="The real client (ASan+UBSan) talks to the real server through a man in the middle that injects generated "
                     "replies at every handshake step and during tunnelling (arbitrary bytes, hostile answer sections for every "
                     "record type, every codec prefix, wrong ids, raw frames, mutations); 'unmatched replies are ignored' is "
                     "judged by TLC against MonClientSafe; memory safety is observed by the sanitizers.",
                technique="sanitizer-instrumented execution of the real client under generated replies; TLC trace validation "
                          "(MonClientSafe); memory safety itself is observed by ASan/UBSan, not specified"),
    "C12": dict(cat="exploration", ref="DESIGN.md §6 C12",
                text="Self-composition: each execution (server: truncated / pointer-edited queries after a victim's long query in "
                     "TLC-generated session states; client: truncated / RDLENGTH-edited answers at handshake and tunnel steps) is run "
                     "with different receive-buffer residues (zeros / tail of the previous datagram / 0xA5) and TLC accepts a step "
                     "only if every output agrees (MonResidue).",
                technique="differential (self-composition) execution over receive-buffer residues; TLC trace validation (MonResidue)"),
    "C13": dict(cat="exploration", ref="DESIGN.md §6 C13",
                text="spec/Shell.tla states the grammar of permitted command lines; TLC checks over all field strings <= 4 chars of "
                     "an attack alphabet that exactly strictly validated fields yield valid commands; generated login replies "
                     "(attack strings in all four fields, every query type and downstream encoding) are served to the real client "
                     "and every system() command line is parsed character by character by TLC (TraceShell).",
                technique="TLA+ grammar spec (Shell.tla) checked by TLC; TLC trace validation of every system() command line of the real client"),
})

NOT_YET = "check not built yet in this revision (work in progress; see DESIGN.md §6 for the plan)"


def main():
    props = [json.loads(l)["id"] for l in open(os.path.join(VERIF, "properties.jsonl"))]
    checks = []
    na = []
    for p in props:
        c = CHECKS.get(p)
        if not c:
            na.append({"property_id": p, "reason": NOT_YET})
            continue
        checks.append({
            "property_id": p,
            "quick_cmd": "bin/check %s --tier quick" % p,
            "thorough_cmd": "bin/check %s --tier thorough" % p,
            "evidence_file": "/verif/evidence/%s.json" % p,
            "replay_cmd_template": "bin/check %s --replay {path}" % p,
            "engine": "tlc+simk",
            "level_claimed": {"category": c["cat"], "text": c["text"], "design_ref": c["ref"]},
            "level_note": c.get("note", SIM_NOTE),
            "technique": c["technique"],
        })
    man = {
        "version": 1,
        "setup_cmd": "bin/setup",
        "hooks": {"guard": "IODINE_VERIF", "enable": "-DIODINE_VERIF passed by tools/build.py to every compile of /repo/src "
                  "(currently guards nothing: no source hooks were needed, all observation is at the wrapped libc boundary "
                  "and the exported users[] table)",
                  "baseline_off_cmd": "make -C /repo clean >/dev/null; make -C /repo test",
                  "source_commits": [], "add_only": True},
        "engines": [{"name": "tlc+simk", "path": "/verif/bin/check",
                     "serves_properties": [c["property_id"] for c in checks],
                     "kind_free_text": "explicit TLA+ specs (spec/*.tla) checked with TLC; real iodine/iodined main()s run in a "
                                       "deterministic simulation kernel (harness/simk.c, ld --wrap) driven from pylib/world.py; "
                                       "recorded executions validated by TLC against monitor specs"}],
        "checks": checks,
        "not_applicable": na,
        "notes": "See DESIGN.md. known_findings.json lists genuine defects (open / fixed).",
    }
    with open(os.path.join(VERIF, "MANIFEST.json"), "w") as f:
        json.dump(man, f, indent=1)
    print("MANIFEST.json: %d checks, %d not claimed" % (len(checks), len(na)))


if __name__ == "__main__":
    main()
