#!/usr/bin/env python3
"""Regenerates /verif/MANIFEST.json from the table below (single source of truth)."""
import json
import os

VERIF = os.path.dirname(os.path.dirname(os.path.abspath(__file__)))

SIM_NOTE = ("Assumes: the wrapped libc boundary behaves like Linux UDP/tun (A-sim); the independent parser used "
            "for abstraction is correct (A-parse); TLC/JVM/sanitizers trusted; exhaustive results hold for the "
            "stated small constants only, simulated executions are samples.")

CHECKS = {
    "C01": dict(cat="model_checking", ref="DESIGN.md §6 C01",
                text="TLC model-checks the implementation-shaped Tunnel spec (Integrity invariants) at small constants; "
                     "real iodine+iodined run in the simulation harness over configurations x packets x fault schedules and "
                     "every tun write is judged by TLC against the MonIntegrity monitor (trace validation).",
                technique="TLA+ spec + TLC model checking; TLC trace validation of real executions (MonIntegrity)"),
    "C14": dict(cat="model_checking", ref="DESIGN.md §6 C14",
                text="TLC checks NoSurplus/HeldAtMostTwo on the Tunnel spec; every answer the real server emits in simulated "
                     "runs (loss/dup/delay/re-ask with new ids) is matched by TLC against the MonAnswers monitor.",
                technique="TLA+ spec + TLC model checking; TLC trace validation of real executions (MonAnswers)"),
    "C15": dict(cat="model_checking", ref="DESIGN.md §6 C15",
                text="TLC checks FragBound/FragNumbering on the Tunnel spec; every downstream data answer of the real server "
                     "is judged by TLC against the MonFragsize monitor (size bound, numbering, last flag).",
                technique="TLA+ spec + TLC model checking; TLC trace validation of real executions (MonFragsize)"),
    "C02": dict(cat="model_checking", ref="DESIGN.md §6 C02",
                text="TLC checks InOrderOnce and DoneDelivered (no silent loss on a prompt, in-order path, with spurious "
                     "timeouts) on the Tunnel spec; real runs are judged on virtual time by the MonProgress monitor: strict "
                     "exactly-once/in-order/30 s deadline on clean paths, delivery within 30 s after fault prefix + 15 s settle, no exit.",
                technique="TLA+ spec + TLC model checking; TLC trace validation of timed real executions (MonProgress)"),
    "C16": dict(cat="model_checking", ref="DESIGN.md §6 C16",
                text="TLC explores duplicate deliveries (same/new id, flipped case) on the Tunnel spec; in simulated runs a relay "
                     "re-delivers chosen queries at chosen distances and TLC judges each against the MonRedelivery monitor "
                     "(stream positions from users[] unchanged inside the windows, cached repeat answered with the same payload).",
                technique="TLA+ spec + TLC model checking; TLC trace validation of real executions (MonRedelivery)"),
}

NOT_YET = "check not built yet in this revision (work in progress; see DESIGN.md §6 for the plan)"


def main():
    props = [json.loads(l)["id"] for l in open(os.path.join(VERIF, "properties.jsonl"))]
    checks = []
    na = []
    for p in props:
        c = CHECKS.get(p)
        if not c:
            na.append({"property_id": p, "reason": NOT_YET})
            continue
        checks.append({
            "property_id": p,
            "quick_cmd": "bin/check %s --tier quick" % p,
            "thorough_cmd": "bin/check %s --tier thorough" % p,
            "evidence_file": "/verif/evidence/%s.json" % p,
            "replay_cmd_template": "bin/check %s --replay {path}" % p,
            "engine": "tlc+simk",
            "level_claimed": {"category": c["cat"], "text": c["text"], "design_ref": c["ref"]},
            "level_note": c.get("note", SIM_NOTE),
            "technique": c["technique"],
        })
    man = {
        "version": 1,
        "setup_cmd": "bin/setup",
        "hooks": {"guard": "IODINE_VERIF", "enable": "-DIODINE_VERIF passed by tools/build.py to every compile of /repo/src "
                  "(currently guards nothing: no source hooks were needed, all observation is at the wrapped libc boundary "
                  "and the exported users[] table)",
                  "baseline_off_cmd": "make -C /repo clean >/dev/null; make -C /repo test",
                  "source_commits": [], "add_only": True},
        "engines": [{"name": "tlc+simk", "path": "/verif/bin/check",
                     "serves_properties": [c["property_id"] for c in checks],
                     "kind_free_text": "explicit TLA+ specs (spec/*.tla) checked with TLC; real iodine/iodined main()s run in a "
                                       "deterministic simulation kernel (harness/simk.c, ld --wrap) driven from pylib/world.py; "
                                       "recorded executions validated by TLC against monitor specs"}],
        "checks": checks,
        "not_applicable": na,
        "notes": "See DESIGN.md. known_findings.json lists genuine defects (open / fixed).",
    }
    with open(os.path.join(VERIF, "MANIFEST.json"), "w") as f:
        json.dump(man, f, indent=1)
    print("MANIFEST.json: %d checks, %d not claimed" % (len(checks), len(na)))


if __name__ == "__main__":
    main()
