#!/usr/bin/env python3
"""Build the conformance harness from /repo's CURRENT working tree.

Output: /verif/build/<hash>/ with
  simk            sanitised (ASan+UBSan) simulation kernel linking the real
                  iodined main() and three private copies of the iodine main()
  fn/*.o          plain -O2 objects of the library-like sources, for the
                  function drivers (C07, C08, C09, C17, C18, C19, C20)
  fnsan/*.o       the same, ASan+UBSan
The hash covers every file in /repo/src plus the harness sources, so a changed
tree is always rebuilt; an unchanged tree costs nothing.  Prints the build
directory on stdout.
"""
import fcntl
import hashlib
import os
import shutil
import subprocess
import sys
import tempfile

REPO = os.environ.get("VERIF_REPO", "/repo")
VERIF = os.path.dirname(os.path.dirname(os.path.abspath(__file__)))
SRC = os.path.join(REPO, "src")
BUILD = os.path.join(VERIF, "build")
GUARD = "IODINE_VERIF"

COMMON = ["tun", "dns", "read", "encoding", "login", "base32", "base64",
          "base64u", "base128", "md5", "common"]
CLIENT = ["iodine", "client", "util"]
SERVER = ["iodined", "user", "fw_query"]

WRAPS = ["select", "read", "write", "close", "open", "ioctl", "fcntl", "socket",
         "bind", "setsockopt", "sendto", "recvfrom", "recvmsg", "recv", "time",
         "sleep", "system", "exit", "rand", "srand", "err", "errx", "geteuid",
         "syslog", "openlog", "daemon", "access"]

SAN = ["-fsanitize=address,undefined", "-fno-sanitize=shift-base", "-fno-sanitize-recover=undefined",
       "-fno-omit-frame-pointer", "-fno-common"]
# a build flavour: extra compiler flags that stand for another platform (e.g. -funsigned-char: ARM / PowerPC Linux,
# where plain char is unsigned); the flavour is part of the build directory's name
EXTRA = os.environ.get("VERIF_CFLAGS_EXTRA", "").split()
BASEFLAGS = ["-std=c99", "-g", "-D_GNU_SOURCE", "-DLINUX", "-D" + GUARD,
             '-DGITREVISION="verif"', "-w"] + EXTRA


def tree_hash():
    h = hashlib.sha256()
    files = []
    for d in (SRC, os.path.join(VERIF, "harness")):
        for fn in sorted(os.listdir(d)):
            if fn.endswith((".c", ".h")) or fn in ("Makefile", "osflags"):
                if d == SRC and fn in ("base64u.c", "base64u.h"):
                    continue  # generated
                files.append(os.path.join(d, fn))
    files.append(os.path.abspath(__file__))
    h.update(" ".join(EXTRA).encode())
    for f in files:
        h.update(f.encode())
        with open(f, "rb") as fh:
            h.update(fh.read())
    return h.hexdigest()[:16]


def run(cmd, **kw):
    r = subprocess.run(cmd, stdout=subprocess.PIPE, stderr=subprocess.STDOUT, text=True, **kw)
    if r.returncode != 0:
        sys.stderr.write("BUILD FAILED: %s\n%s\n" % (" ".join(cmd), r.stdout))
        raise SystemExit(3)
    return r.stdout


def gen_base64u(dst):
    """Run the repository's own Makefile rule in a throw-away directory."""
    tmp = tempfile.mkdtemp(prefix="verif-b64u-", dir=os.environ.get("TMPDIR", "/var/tmp"))
    try:
        os.symlink(os.path.join(SRC, "Makefile"), os.path.join(tmp, "Makefile"))
        os.symlink(os.path.join(SRC, "base64.c"), os.path.join(tmp, "base64.c"))
        run(["make", "-s", "-C", tmp, "base64u.c"])
        shutil.copy(os.path.join(tmp, "base64u.c"), dst)
    finally:
        shutil.rmtree(tmp, ignore_errors=True)


def cc(out, src, flags):
    return ["clang"] + BASEFLAGS + flags + ["-I" + SRC, "-c", src, "-o", out]


def build(dest):
    from concurrent.futures import ThreadPoolExecutor
    os.makedirs(os.path.join(dest, "san"))
    os.makedirs(os.path.join(dest, "fn"))
    os.makedirs(os.path.join(dest, "fnsan"))
    b64u = os.path.join(dest, "base64u.c")
    gen_base64u(b64u)
    jobs = []
    for m in COMMON + CLIENT + SERVER:
        src = b64u if m == "base64u" else os.path.join(SRC, m + ".c")
        extra = []
        if m == "iodined":
            extra = ["-Dmain=iodined_main"]
        if m == "iodine":
            extra = ["-Dmain=iodine_main"]
        jobs.append(cc(os.path.join(dest, "san", m + ".o"), src, ["-O1"] + SAN + extra))
        if m not in ("iodine", "iodined"):
            jobs.append(cc(os.path.join(dest, "fn", m + ".o"), src, ["-O2"]))
            jobs.append(cc(os.path.join(dest, "fnsan", m + ".o"), src, ["-O1"] + SAN))
    jobs.append(["clang", "-std=gnu99", "-g", "-O1", "-D_GNU_SOURCE"] + SAN +
                ["-I" + SRC, "-c", os.path.join(VERIF, "harness", "simk.c"),
                 "-o", os.path.join(dest, "san", "simk.o")])
    with ThreadPoolExecutor(16) as ex:
        list(ex.map(run, jobs))

    def objs(names):
        return [os.path.join(dest, "san", n + ".o") for n in names]

    srv = os.path.join(dest, "san", "server_all.o")
    run(["ld", "-r", "-o", srv] + objs(SERVER + COMMON))
    run(["objcopy", "--keep-global-symbol=iodined_main", "--keep-global-symbol=users",
         "--keep-global-symbol=usercount", srv])
    # the client's tunnel state lives in file-scope statics of client.c: make those symbols visible to the simulation
    # kernel (read-only projection for the Layer A binding of Tunnel.tla's client half) - no source change needed
    CLISTATE = ["outpkt", "inpkt", "outchunkresent", "chunkid", "chunkid_prev", "chunkid_prev2", "send_ping_soon",
                "lazymode"]
    run(["objcopy"] + ["--globalize-symbol=" + v for v in CLISTATE] + [os.path.join(dest, "san", "client.o")])
    cli = os.path.join(dest, "san", "client_all.o")
    run(["ld", "-r", "-o", cli] + objs(CLIENT + COMMON))
    run(["objcopy", "--keep-global-symbol=iodine_main"] + ["--keep-global-symbol=" + v for v in CLISTATE] + [cli])
    clis = []
    for k in range(3):
        ck = os.path.join(dest, "san", "client_%d.o" % k)
        redef = ["--redefine-sym", "iodine_main=iodine_main_%d" % k]
        for v in CLISTATE:
            redef += ["--redefine-sym", "%s=cli%d_%s" % (v, k, v)]
        run(["objcopy"] + redef + [cli, ck])
        clis.append(ck)
    link = ["clang"] + SAN + ["-o", os.path.join(dest, "simk"),
                              os.path.join(dest, "san", "simk.o"), srv] + clis
    link += ["-Wl," + ",".join("--wrap=" + w for w in WRAPS), "-lz", "-lpthread"]
    run(link)
    # function drivers (each optional: built if the source exists).  drv_X.c may have companion translation units
    # drvpart_X_*.c (used to #include a program's .c file and reach its static functions) and a line
    # "// WRAP: sym sym" naming libc symbols redirected with ld --wrap; "// LINK: tun util" adds objects.
    hd = os.path.join(VERIF, "harness")
    for fn in sorted(os.listdir(hd)):
        if fn.startswith("drv_") and fn.endswith(".c"):
            name = fn[:-2]
            short = name[4:]
            parts = [os.path.join(hd, f) for f in sorted(os.listdir(hd)) if f.startswith("drvpart_%s_" % short) and f.endswith(".c")]
            text = open(os.path.join(hd, fn)).read()
            wraps, extra = [], []
            for line in text.splitlines():
                if line.startswith("// WRAP:"):
                    wraps += line.split(":", 1)[1].split()
                if line.startswith("// LINK:"):
                    extra += line.split(":", 1)[1].split()
            mods = ["dns", "read", "encoding", "login", "base32", "base64", "base64u", "base128", "md5", "common", "user",
                    "fw_query"] + extra
            wl = ["-Wl," + ",".join("--wrap=" + w for w in wraps)] if wraps else []
            plain = [os.path.join(dest, "fn", m + ".o") for m in mods]
            run(["clang", "-std=gnu99", "-O2", "-g", "-D_GNU_SOURCE", "-DLINUX", '-DGITREVISION="verif"', "-w"] + EXTRA + ["-I" + SRC,
                 "-I" + dest, os.path.join(hd, fn)] + parts + ["-o", os.path.join(dest, name)] + plain + wl + ["-lz"])
            sanobjs = [p.replace("/fn/", "/fnsan/") for p in plain]
            run(["clang", "-std=gnu99", "-O1", "-g", "-D_GNU_SOURCE", "-DLINUX", '-DGITREVISION="verif"', "-w"] + EXTRA + ["-I" + SRC,
                 "-I" + dest] + SAN + [os.path.join(hd, fn)] + parts + ["-o", os.path.join(dest, name + "_san")]
                + sanobjs + wl + ["-lz"])


def prune(keep):
    try:
        ds = [os.path.join(BUILD, d) for d in os.listdir(BUILD) if d != keep and not d.startswith(".")]
    except FileNotFoundError:
        return
    # other trees and flavours may be in use by checks running right now (seeded changes, -funsigned-char builds):
    # keep the dozen most recently used directories and never remove one that was used within the last eight hours
    import time
    ds = [d for d in ds if os.path.isdir(d)]
    ds.sort(key=lambda d: os.path.getmtime(d))
    for d in ds[:-12]:
        if time.time() - os.path.getmtime(d) > 8 * 3600:
            shutil.rmtree(d, ignore_errors=True)


def main():
    os.makedirs(BUILD, exist_ok=True)
    h = tree_hash()
    dest = os.path.join(BUILD, h)
    if os.path.exists(os.path.join(dest, "OK")):
        try:
            os.utime(dest, None)        # "recently used" for prune()
        except OSError:
            pass
        print(dest)
        return
    with open(os.path.join(BUILD, ".lock"), "w") as lk:
        fcntl.flock(lk, fcntl.LOCK_EX)
        if not os.path.exists(os.path.join(dest, "OK")):
            tmp = dest + ".tmp%d" % os.getpid()
            shutil.rmtree(tmp, ignore_errors=True)
            shutil.rmtree(dest, ignore_errors=True)
            try:
                build(tmp)
            except BaseException:
                shutil.rmtree(tmp, ignore_errors=True)
                raise
            os.rename(tmp, dest)
            open(os.path.join(dest, "OK"), "w").close()
            prune(h)
    print(dest)


if __name__ == "__main__":
    main()
