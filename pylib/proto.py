"""iodine protocol 0x00000502 message construction / interpretation.

Independent of /repo (written from doc/proto_00000502.txt and RFC 1035);
used to abstract wire traffic into events for the TLA+ monitors and by
scripted peers that talk to the real programs.
"""
import hashlib
import struct
import zlib

import codec
import dnsmsg as D

PROTOCOL_VERSION = 0x00000502
RAW_HDR = b"\x10\xd1\x9e"
DOWNCODECCHECK1 = bytes([0, 0, 0, 0, 255, 255, 255, 255, 0x55, 0x55, 0x55, 0x55, 0xaa, 0xaa, 0xaa, 0xaa,
                         0o201, 0o143, 0o310, 0o322, 0o307, 0o174, 0o262, 0o027, 0o137, 0o117, 0o316,
                         0o311, 0o111, 0o055, 0o122, 0o041, 0o141, 0o251, 0o161, 0o040, 0o045, 0o263,
                         0o006, 0o163, 0o346, 0o330, 0o104, 0o060, 0o171, 0o120, 0o127, 0o277])
assert len(DOWNCODECCHECK1) == 48

DOWNENC_CODEC = {"T": "b32", "S": "b64", "U": "b64u", "V": "b128"}
TXT_LETTER = {"T": b"t", "S": b"s", "U": b"u", "V": b"v", "R": b"r"}
HOST_LETTER = {"T": b"h", "S": b"i", "U": b"j", "V": b"k"}
LETTER_CODEC = {ord("t"): "b32", ord("s"): "b64", ord("u"): "b64u", ord("v"): "b128",
                ord("h"): "b32", ord("i"): "b64", ord("j"): "b64u", ord("k"): "b128"}


def login_hash(password, seed):
    pw = password[:32].ljust(32, b"\0")
    s = struct.pack(">I", seed & 0xFFFFFFFF) * 8
    return hashlib.md5(bytes(a ^ b for a, b in zip(pw, s))).digest()


def compress(pkt):
    return zlib.compress(pkt, 9)


def tun_frame(ip_payload):
    """4-byte Linux tun header + packet"""
    return b"\x00\x00\x08\x00" + ip_payload


def ipv4_packet(src, dst, payload, proto=17):
    def ipb(s):
        return bytes(int(x) for x in s.split("."))
    tot = 20 + len(payload)
    hdr = struct.pack(">BBHHHBBH", 0x45, 0, tot & 0xFFFF, 0, 0, 64, proto, 0) + ipb(src) + ipb(dst)
    return hdr + payload


# ---------------------------------------------------------------- name building

def dotify(text, first_room=57):
    """Split text into labels of at most 57 chars (first label may be given less room)."""
    labels = []
    i = 0
    room = first_room
    while i < len(text):
        labels.append(text[i:i + room])
        i += room
        room = 57
    return labels


def qname(prefix_and_data, domain):
    """prefix_and_data: bytes; splits into labels <= 57 then appends domain labels."""
    return dotify(prefix_and_data) + D.name_to_labels(domain)


def cmc3(n):
    return bytes([codec.b32_5to8((n >> 10) & 31), codec.b32_5to8((n >> 5) & 31), codec.b32_5to8(n & 31)])


def q_version(cmc, version=PROTOCOL_VERSION):
    return b"v" + codec.encode("b32", struct.pack(">IH", version, cmc & 0xFFFF))


def q_login(uid, hash16, cmc):
    return b"l" + codec.encode("b32", bytes([uid & 0xFF]) + hash16 + struct.pack(">H", cmc & 0xFFFF))


def q_ipreq(uid, cmc):
    return b"i" + bytes([codec.b32_5to8(uid)]) + cmc3(cmc)


def q_switch_codec(uid, bits, cmc):
    return b"s" + bytes([codec.b32_5to8(uid), codec.b32_5to8(bits)]) + cmc3(cmc)


def q_option(uid, opt, cmc):
    return b"o" + bytes([codec.b32_5to8(uid)]) + opt.encode() + cmc3(cmc)


def q_downenctest(enc, variant, cmc):
    return b"y" + enc.lower().encode() + bytes([codec.b32_5to8(variant)]) + cmc3(cmc)


def q_upenctest(text, cmc):
    return b"z" + cmc3(cmc) + text


def q_fragprobe(uid, size, filler=b"d" + b"a" * 40):
    v = ((uid & 15) << 11) | (size & 2047)
    return b"r" + bytes([codec.b32_5to8((v >> 10) & 31), codec.b32_5to8((v >> 5) & 31),
                         codec.b32_5to8(v & 31)]) + filler


def q_setfrag(uid, size, cmc):
    return b"n" + codec.encode("b32", bytes([uid & 0xFF]) + struct.pack(">HH", size & 0xFFFF, cmc & 0xFFFF))


def q_ping(uid, dseq, dfrag, cmc):
    return b"p" + codec.encode("b32", bytes([uid & 0xFF, ((dseq & 7) << 4) | (dfrag & 15)]) +
                               struct.pack(">H", cmc & 0xFFFF))


CMCCHARS = b"abcdefghijklmnopqrstuvwxyz0123456789"


def data_header(uid, useq, ufrag, dseq, dfrag, last, cmcidx):
    c1 = ((useq & 7) << 2) | ((ufrag & 15) >> 2)
    c2 = ((ufrag & 3) << 3) | (dseq & 7)
    c3 = ((dfrag & 15) << 1) | (last & 1)
    return (b"0123456789abcdef"[uid & 15:(uid & 15) + 1] +
            bytes([codec.b32_5to8(c1), codec.b32_5to8(c2), codec.b32_5to8(c3)]) +
            CMCCHARS[cmcidx % 36:cmcidx % 36 + 1])


def q_data(uid, useq, ufrag, dseq, dfrag, last, cmcidx, payload, upcodec="b32"):
    return data_header(uid, useq, ufrag, dseq, dfrag, last, cmcidx) + codec.encode(upcodec, payload)


def data_qlabels(hdr_and_text, domain):
    """5 header chars stay in front of the first (57-char) chunk, as the real client does."""
    hdr, text = hdr_and_text[:5], hdr_and_text[5:]
    chunks = dotify(text) or [b""]
    chunks[0] = hdr + chunks[0]
    return chunks + D.name_to_labels(domain)


# ---------------------------------------------------------------- query classification

def strip_domain(labels, domain):
    """Return data part (bytes, dots removed are NOT re-inserted; labels joined by '.') or None."""
    dl = [l.lower() for l in D.name_to_labels(domain)]
    if len(labels) < len(dl):
        return None
    tail = [l.lower() for l in labels[len(labels) - len(dl):]]
    if dl and dl[0] == b"*":
        if tail[1:] != dl[1:] or b"*" in labels[len(labels) - len(dl)]:
            return None
    elif tail != dl:
        return None
    return labels[:len(labels) - len(dl)]


def classify_query(labels, domain, upcodec_of=None):
    """Abstract a tunnel query name.  Returns dict(kind=..., fields) ; kind 'other' if not tunnel."""
    head = strip_domain(labels, domain)
    if head is None:
        return {"kind": "foreign"}
    text = b"".join(head)
    if not text:
        return {"kind": "empty"}
    c = bytes([text[0]]).lower()
    r = {"kind": "unknown", "cmd": chr(text[0]), "rawlen": len(text)}
    try:
        if c == b"v":
            d = codec.decode("b32", text[1:])
            r.update(kind="version", version=struct.unpack(">I", d[:4])[0] if len(d) >= 4 else -1)
        elif c == b"l":
            d = codec.decode("b32", text[1:])
            r.update(kind="login", uid=d[0] if d else -1, hash=d[1:17].hex())
        elif c == b"i":
            r.update(kind="ipreq", uid=codec.b32_8to5(text[1]) if len(text) > 1 else -1)
        elif c == b"z":
            r.update(kind="upenctest")
        elif c == b"s":
            r.update(kind="switchcodec", uid=codec.b32_8to5(text[1]), bits=codec.b32_8to5(text[2]) if len(text) > 2 else -1)
        elif c == b"o":
            r.update(kind="option", uid=codec.b32_8to5(text[1]), opt=chr(text[2]) if len(text) > 2 else "")
        elif c == b"y":
            r.update(kind="downenctest", enc=chr(text[1]) if len(text) > 1 else "")
        elif c == b"r":
            v = (codec.b32_8to5(text[1]) << 10) | (codec.b32_8to5(text[2]) << 5) | codec.b32_8to5(text[3])
            r.update(kind="fragprobe", uid=(v >> 11) & 15, size=v & 2047)
        elif c == b"n":
            d = codec.decode("b32", text[1:])
            r.update(kind="setfrag", uid=d[0], size=(d[1] << 8) | d[2])
        elif c == b"p":
            d = codec.decode("b32", text[1:])
            r.update(kind="ping", uid=d[0], dseq=(d[1] >> 4) & 7, dfrag=d[1] & 15, cmc=(d[2] << 8 | d[3]) if len(d) >= 4 else -1)
        elif c in b"0123456789abcdef" and len(text) >= 5:
            uid = int(c, 16)
            c1, c2, c3 = (codec.b32_8to5(x) for x in text[1:4])
            r.update(kind="data", uid=uid, useq=(c1 >> 2) & 7, ufrag=((c1 & 3) << 2) | ((c2 >> 3) & 3),
                     dseq=c2 & 7, dfrag=c3 >> 1, last=c3 & 1, cmc=chr(text[4]), enc=text[5:])
    except (IndexError, struct.error):
        r["kind"] = "malformed"
    return r


# ---------------------------------------------------------------- answers

def host_encode(payload, downenc, tld=b"xy", room=249):
    """One CNAME-style name carrying as much of payload as fits; returns (labels, consumed)."""
    cd = DOWNENC_CODEC.get(downenc, "b32")
    letter = HOST_LETTER.get(downenc, b"h")
    # text chars available: room - dots
    space = room - room // 57
    _, bits = codec.ALPHA[cd]
    nbytes = min(len(payload), (space * bits) // 8)
    text = codec.encode(cd, payload[:nbytes])
    full = letter + text
    labels = dotify(full)
    return labels + [tld], nbytes


def build_data_answer(qid, qlabels, qtype, payload, downenc="T"):
    """Server-side answer construction (scripted server)."""
    if qtype in (D.T_NULL, D.T_PRIVATE):
        return D.build_answer(qid, qlabels, qtype, [(qtype, payload)])
    if qtype == D.T_TXT:
        if downenc == "R":
            blob = b"r" + payload
        else:
            blob = TXT_LETTER.get(downenc, b"t") + codec.encode(DOWNENC_CODEC.get(downenc, "b32"), payload)
        return D.build_answer(qid, qlabels, qtype, [(qtype, D.txt_rdata(blob))])
    if qtype in (D.T_CNAME, D.T_A):
        labels, _ = host_encode(payload, downenc)
        return D.build_answer(qid, qlabels, qtype, [(D.T_CNAME, D.wire_name(labels))])
    if qtype in (D.T_MX, D.T_SRV):
        rrs = []
        off = 0
        n = 1
        while True:
            labels, used = host_encode(payload[off:], downenc)
            rd = struct.pack(">H", 10 * n)
            if qtype == D.T_SRV:
                rd += struct.pack(">HH", 10, 5060)
            rrs.append((qtype, rd + D.wire_name(labels)))
            off += used
            n += 1
            if off >= len(payload) or used == 0:
                break
        return D.build_answer(qid, qlabels, qtype, rrs)
    return D.build_answer(qid, qlabels, qtype, [])


def _host_decode(labels):
    """labels of a CNAME-style data name -> payload bytes or None"""
    if len(labels) < 2:
        return None
    text = b"".join(labels[:-1])
    if not text:
        return None
    cd = LETTER_CODEC.get(bytes([text[0]]).lower()[0])
    if cd is None or bytes([text[0]]).lower() not in b"hijk":
        return None
    return codec.decode(cd, text[1:])


def decode_answer(msg):
    """Payload carried by a (well-formed) answer, per the protocol document; None if none."""
    if not msg.qd or not msg.an:
        return None
    qtype = msg.qd[0][1]
    if qtype in (D.T_NULL, D.T_PRIVATE):
        return msg.an[0].rdata
    if qtype == D.T_TXT:
        blob = b"".join(msg.an[0].extra.get("strings", []))
        if not blob:
            return None
        l = bytes([blob[0]]).lower()
        if l == b"r":
            return blob[1:]
        cd = LETTER_CODEC.get(l[0])
        if cd is None or l not in b"tsuv":
            return None
        return codec.decode(cd, blob[1:])
    if qtype in (D.T_CNAME, D.T_A):
        rr = msg.an[0]
        if rr.type != D.T_CNAME or not rr.names:
            return None
        return _host_decode(rr.names[0])
    if qtype in (D.T_MX, D.T_SRV):
        byp = {}
        for rr in msg.an:
            if rr.type == qtype and rr.names and "pref" in rr.extra:
                byp[rr.extra["pref"]] = rr.names[0]
        out = b""
        p = 10
        while p in byp:
            d = _host_decode(byp[p])
            if not d:
                break
            out += d
            p += 10
        return out
    return None


def parse_data_header(payload):
    if payload is None or len(payload) < 2:
        return None
    b0, b1 = payload[0], payload[1]
    return {"c": b0 >> 7, "useq": (b0 >> 4) & 7, "ufrag": b0 & 15, "dseq": (b1 >> 5) & 7,
            "dfrag": (b1 >> 1) & 15, "last": b1 & 1}
