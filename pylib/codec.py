"""Independent Base32/64/64u/128 codecs (from doc/proto_00000502.txt).

Written from the protocol document: n-bit groups, most significant bit first,
last group zero padded; decoding yields floor(bits/8) bytes.  The ORDER of the
alphabets is not in the document; it is taken from the wire (trusted constant).
Nothing here calls into /repo.
"""

B32 = b"abcdefghijklmnopqrstuvwxyz012345"
B64 = b"abcdefghijklmnopqrstuvwxyzABCDEFGHIJKLMNOPQRSTUVWXYZ-0123456789+"
B64U = b"abcdefghijklmnopqrstuvwxyzABCDEFGHIJKLMNOPQRSTUVWXYZ-0123456789_"
B128 = (b"abcdefghijklmnopqrstuvwxyzABCDEFGHIJKLMNOPQRSTUVWXYZ0123456789" +
        bytes(range(0xBC, 0xFE)))
assert len(B32) == 32 and len(B64) == 64 and len(B64U) == 64 and len(B128) == 128

ALPHA = {"b32": (B32, 5), "b64": (B64, 6), "b64u": (B64U, 6), "b128": (B128, 7)}
NAMES = {"Base32": "b32", "Base64": "b64", "Base64u": "b64u", "Base128": "b128"}


def _rev(alpha, ci=False):
    r = {}
    for i, c in enumerate(alpha):
        r[c] = i
        if ci and 97 <= c <= 122:
            r[c - 32] = i
    return r


REV = {"b32": _rev(B32, True), "b64": _rev(B64), "b64u": _rev(B64U), "b128": _rev(B128)}


def encode(codec, data):
    alpha, bits = ALPHA[codec]
    out = bytearray()
    acc = 0
    n = 0
    for b in data:
        acc = (acc << 8) | b
        n += 8
        while n >= bits:
            out.append(alpha[(acc >> (n - bits)) & ((1 << bits) - 1)])
            n -= bits
        acc &= (1 << n) - 1
    if n:
        out.append(alpha[(acc << (bits - n)) & ((1 << bits) - 1)])
    return bytes(out)


def decode(codec, text):
    """Unknown characters decode as zero (documented behaviour of iodine)."""
    _, bits = ALPHA[codec]
    rev = REV[codec]
    out = bytearray()
    acc = 0
    n = 0
    for c in text:
        acc = (acc << bits) | rev.get(c, 0)
        n += bits
        if n >= 8:
            out.append((acc >> (n - 8)) & 0xFF)
            n -= 8
        acc &= (1 << n) - 1
    return bytes(out)


def enclen(codec, n):
    _, bits = ALPHA[codec]
    return (8 * n + bits - 1) // bits


def declen(codec, m):
    _, bits = ALPHA[codec]
    return (bits * m) // 8


def b32_5to8(v):
    return B32[v & 31]


def b32_8to5(c):
    return REV["b32"].get(c, 0)
