"""Strict RFC 1035 message parser / builder, independent of /repo/src/dns.c.

parse(data) never raises: it returns a Msg whose .errors lists every
well-formedness violation (C10's definition).  Names are lists of label byte
strings.  Used (a) to abstract datagrams for the TLA+ monitors, (b) by
scripted peers to talk to the real programs, (c) by the relay family.
"""
import struct

T_A, T_NS, T_CNAME, T_NULL, T_MX, T_TXT, T_SRV, T_OPT = 1, 2, 5, 10, 15, 16, 33, 41
T_PRIVATE = 65399
TYPENAMES = {1: "A", 2: "NS", 5: "CNAME", 10: "NULL", 15: "MX", 16: "TXT", 33: "SRV",
             41: "OPT", 65399: "PRIVATE"}
TYPENUM = {v: k for k, v in TYPENAMES.items()}


class Msg:
    def __init__(self):
        self.id = 0
        self.flags = 0
        self.qd = []      # (labels, type, class)
        self.an = []      # RR
        self.ns = []
        self.ar = []
        self.errors = []
        self.counts = (0, 0, 0, 0)
        self.label_starts = set()
        self.end = 0

    @property
    def qr(self):
        return (self.flags >> 15) & 1

    @property
    def rcode(self):
        return self.flags & 15


class RR:
    __slots__ = ("name", "type", "cls", "ttl", "rdata", "rdoff", "names", "extra")

    def __init__(self):
        self.names = []   # decoded names inside rdata (CNAME/MX/SRV/NS)
        self.extra = {}


def _read_name(data, off, msg, what, allow_ptr=True):
    """Returns (labels, next_offset) or (None, None) on fatal error."""
    labels = []
    total = 0
    jumps = 0
    nxt = None
    pos = off
    n = len(data)
    first = True
    while True:
        if pos >= n:
            msg.errors.append("%s: name runs past end of message" % what)
            return None, None
        c = data[pos]
        if c & 0xC0 == 0xC0:
            if not allow_ptr:
                msg.errors.append("%s: compression pointer not allowed here" % what)
            if pos + 1 >= n:
                msg.errors.append("%s: truncated compression pointer" % what)
                return None, None
            tgt = ((c & 0x3F) << 8) | data[pos + 1]
            if nxt is None:
                nxt = pos + 2
            if tgt >= pos:
                msg.errors.append("%s: compression pointer does not point backwards (%d -> %d)" % (what, pos, tgt))
                if tgt >= n:
                    return None, None
            if tgt not in msg.label_starts:
                msg.errors.append("%s: compression pointer target %d is not a label boundary" % (what, tgt))
            jumps += 1
            if jumps > 20:
                msg.errors.append("%s: compression loop" % what)
                return None, None
            pos = tgt
            first = False
            continue
        if c & 0xC0:
            msg.errors.append("%s: reserved label type 0x%02x" % (what, c))
            return None, None
        if jumps == 0:
            msg.label_starts.add(pos)
        if c == 0:
            total += 1
            if nxt is None:
                nxt = pos + 1
            break
        if c > 63:
            msg.errors.append("%s: label longer than 63" % what)
        if pos + 1 + c > n:
            msg.errors.append("%s: label runs past end of message" % what)
            return None, None
        labels.append(bytes(data[pos + 1:pos + 1 + c]))
        total += 1 + c
        pos += 1 + c
        first = False
    if total > 255:
        msg.errors.append("%s: name longer than 255 octets on the wire (%d)" % (what, total))
    return labels, nxt


def _read_rr(data, off, msg, sec, idx):
    what = "%s[%d]" % (sec, idx)
    rr = RR()
    name, off = _read_name(data, off, msg, what + ".name")
    if name is None:
        return None, None
    if off + 10 > len(data):
        msg.errors.append(what + ": truncated RR header")
        return None, None
    rr.name = name
    rr.type, rr.cls, rr.ttl, rdlen = struct.unpack(">HHIH", data[off:off + 10])
    off += 10
    if off + rdlen > len(data):
        msg.errors.append(what + ": RDLENGTH %d exceeds bytes present (%d)" % (rdlen, len(data) - off))
        return None, None
    rr.rdata = bytes(data[off:off + rdlen])
    rr.rdoff = off
    end = off + rdlen
    t = rr.type
    if t in (T_CNAME, T_NS):
        nm, e = _read_name(data, off, msg, what + ".rdata")
        if nm is None:
            return None, None
        if e != end:
            msg.errors.append(what + ": RDLENGTH %d != name size %d" % (rdlen, e - off))
        rr.names = [nm]
    elif t == T_MX:
        if rdlen < 3:
            msg.errors.append(what + ": MX rdata too short")
        else:
            rr.extra["pref"] = struct.unpack(">H", data[off:off + 2])[0]
            nm, e = _read_name(data, off + 2, msg, what + ".rdata")
            if nm is None:
                return None, None
            if e != end:
                msg.errors.append(what + ": RDLENGTH %d != 2+name size %d" % (rdlen, e - off))
            rr.names = [nm]
    elif t == T_SRV:
        if rdlen < 7:
            msg.errors.append(what + ": SRV rdata too short")
        else:
            p, w, port = struct.unpack(">HHH", data[off:off + 6])
            rr.extra.update(pref=p, weight=w, port=port)
            nm, e = _read_name(data, off + 6, msg, what + ".rdata")
            if nm is None:
                return None, None
            if e != end:
                msg.errors.append(what + ": RDLENGTH %d != 6+name size %d" % (rdlen, e - off))
            rr.names = [nm]
    elif t == T_TXT:
        p = off
        strs = []
        if rdlen == 0:
            msg.errors.append(what + ": empty TXT rdata")
        while p < end:
            l = data[p]
            if p + 1 + l > end:
                msg.errors.append(what + ": TXT string overruns RDATA")
                break
            strs.append(bytes(data[p + 1:p + 1 + l]))
            p += 1 + l
        rr.extra["strings"] = strs
    elif t == T_A:
        if rdlen != 4:
            msg.errors.append(what + ": A rdata length %d" % rdlen)
    elif t == T_OPT:
        if name != []:
            msg.errors.append(what + ": OPT owner name must be root")
    return rr, end


def parse(data):
    data = bytes(data)
    m = Msg()
    if len(data) < 12:
        m.errors.append("shorter than a DNS header")
        return m
    m.id, m.flags, qd, an, ns, ar = struct.unpack(">HHHHHH", data[:12])
    m.counts = (qd, an, ns, ar)
    off = 12
    for i in range(qd):
        nm, off2 = _read_name(data, off, m, "qd[%d].name" % i)
        if nm is None:
            return m
        if off2 + 4 > len(data):
            m.errors.append("qd[%d]: truncated question" % i)
            return m
        t, c = struct.unpack(">HH", data[off2:off2 + 4])
        m.qd.append((nm, t, c))
        off = off2 + 4
    for sec, cnt, lst in (("an", an, m.an), ("ns", ns, m.ns), ("ar", ar, m.ar)):
        for i in range(cnt):
            rr, off2 = _read_rr(data, off, m, sec, i)
            if rr is None:
                m.errors.append("%s: %d records announced, %d present" % (sec, cnt, i))
                return m
            lst.append(rr)
            off = off2
    m.end = off
    if off != len(data):
        m.errors.append("%d trailing bytes after the last record" % (len(data) - off))
    return m


# ------------------------------------------------------------------ building

def name_to_labels(s):
    """dotted bytes -> labels (no escaping; iodine names contain no literal dots in labels)"""
    if isinstance(s, str):
        s = s.encode("latin-1")
    s = s.rstrip(b".")
    return [l for l in s.split(b".")] if s else []


def labels_to_name(labels):
    return b".".join(labels)


def wire_name(labels):
    out = bytearray()
    for l in labels:
        out.append(len(l))
        out += l
    out.append(0)
    return bytes(out)


def build_query(qid, labels, qtype, edns=True, rd=True, case_map=None):
    flags = 0x0100 if rd else 0
    out = bytearray(struct.pack(">HHHHHH", qid, flags, 1, 0, 0, 1 if edns else 0))
    out += wire_name(labels)
    out += struct.pack(">HH", qtype, 1)
    if edns:
        out += b"\x00" + struct.pack(">HHHHH", 41, 4096, 0, 0x8000, 0)
    return bytes(out)


def build_answer(qid, labels, qtype, rrs, flags=0x8400, arrs=()):
    """rrs: list of (type, rdata_bytes) with owner = pointer to question name."""
    out = bytearray(struct.pack(">HHHHHH", qid, flags, 1, len(rrs), 0, len(arrs)))
    out += wire_name(labels)
    out += struct.pack(">HH", qtype, 1)
    for t, rd in rrs:
        out += b"\xc0\x0c" + struct.pack(">HHIH", t, 1, 0, len(rd)) + rd
    for owner, t, ttl, rd in arrs:
        out += owner + struct.pack(">HHIH", t, 1, ttl, len(rd)) + rd
    return bytes(out)


def txt_rdata(blob):
    out = bytearray()
    i = 0
    if not blob:
        return b"\x00"
    while i < len(blob):
        c = blob[i:i + 252]
        out.append(len(c))
        out += c
        i += len(c)
    return bytes(out)
