"""Man in the middle between the REAL client and the REAL server: lets the legitimate dialogue run up to a chosen
step, then injects / substitutes generated replies towards the client (C06, C12 client half, C13).

plan entries: {"kind": <query kind or "any">, "k": ordinal of that kind, "n": how many, "mode": "prepend"|"replace",
               "what": "hostile" | "trunc" | "payload", "payload": hex, "downenc": "T"}
"""
import json
import random
import struct

import dnsmsg as D
import hostile
import proto
import scen
import world as W


class Mitm(scen.Relay):
    def __init__(self, seed=1, plan=(), **kw):
        scen.Relay.__init__(self, seed, **kw)
        self.hrng = random.Random(seed * 31 + 7)
        self.mplan = list(plan)
        self.kcount = {}
        self.qinfo = {}         # (client addr, id) -> info
        self.recent = {}        # client addr -> list of recent ids
        self.injected = 0
        self.after_any = 0
        self.chain = None       # running fragment chain: {"i", "n", "size", "seq", "downenc"}
        self.edge_phase = seed % 4
        self.edge_off = (seed // 4) % 13

    def _note_query(self, dg):
        if dg.data[:3] == proto.RAW_HDR:
            return
        m = D.parse(dg.data)
        if not m.qd or m.qr:
            return
        labels, qt, _ = m.qd[0]
        kind = proto.classify_query(labels, self.domain)["kind"]
        k = self.kcount.get(kind, 0)
        self.kcount[kind] = k + 1
        anyk = self.kcount.get("any", 0)
        self.kcount["any"] = anyk + 1
        ids = self.recent.setdefault(dg.src, [])
        ids.append(m.id)
        del ids[:-3]
        self.qinfo[(dg.src, m.id)] = {"id": m.id, "labels": labels, "qtype": qt, "kind": kind, "k": k, "anyk": anyk,
                                      "ids": list(ids)}

    def hrng_fixed(self, p, i):
        """a generator that does not depend on the run's variant: the probe replies are the same in every variant"""
        return random.Random(p.get("probe_seed", 1) * 1000 + i)

    def _raw_variant(self, real, i):
        if i < 6:
            return real[:[3, 2, 1, 0, 4, 5][i]]
        if i == 6:
            return real[:3] + bytes([(real[3] & 0xF0) | ((real[3] + 1) & 15)]) + real[4:]      # another session's userid
        if i == 7:
            return real[:3]                                                                  # the bare ident once more
        if i == 8:
            return real[:4] + real[4:][: max(1, (len(real) - 4) // 2)]                        # data frame cut in half
        return hostile.raw_frame(self.hrng)

    def _plan_for(self, q):
        for p in self.mplan:
            if (p["kind"] == q["kind"] and p["k"] == q["k"]) or (p["kind"] == "any" and p["k"] == q["anyk"]):
                return p
        return None

    def route(self, world, dg):
        to_server = dg.dst[1] == 53 and dg.dst[0] == W.SERVER_IP
        from_server = dg.src[1] == 53 and dg.src[0] == W.SERVER_IP
        if to_server:
            self._note_query(dg)
            return scen.Relay.route(self, world, dg)
        if from_server and dg.data[:3] == proto.RAW_HDR and len(dg.data) >= 4:
            # raw UDP mode: the k-th raw frame the server sends to the client is followed by cut-down and otherwise
            # hostile variants of it (every header length 0..5, the bare 3-byte ident, another session's userid, ...)
            k = self.kcount.get("rawdown", 0)
            self.kcount["rawdown"] = k + 1
            for p in self.mplan:
                if p["kind"] == "rawdown" and p["k"] == k and not p.get("done"):
                    p["done"] = True
                    out = [(self.latency, dg.data, dg.src, dg.dst)]
                    uid = dg.data[3] & 15
                    for i in range(p.get("n", 12)):
                        v = self._raw_variant(dg.data, i)
                        matched = len(v) >= 4 and v[:3] == proto.RAW_HDR and (v[3] & 15) == uid
                        out.append((self.latency + 30 * len(out), v, dg.src, dg.dst,
                                    {"kind": "rawcut" if i < 9 else "raw", "matched": matched, "hostile": True,
                                     "step": "rawdown/%d" % k, "len": len(v)}))
                        self.injected += 1
                    return out
            return scen.Relay.route(self, world, dg)
        if not from_server or dg.data[:3] == proto.RAW_HDR or len(dg.data) < 2:
            return scen.Relay.route(self, world, dg)
        qid = struct.unpack(">H", dg.data[:2])[0]
        q = self.qinfo.get((dg.dst, qid))
        p = self._plan_for(q) if q else None
        if p is not None and not p.get("done") and p.get("what") == "chain":
            # from here on every answer to a ping / data query is replaced by the next fragment of ONE downstream
            # packet that never ends: same sequence number, consecutive fragment numbers, "last" clear, each as large
            # as the record type carries
            p["done"] = True
            real = proto.parse_data_header(proto.decode_answer(D.parse(dg.data)) or b"") or {"dseq": 0}
            size = p.get("size", 4000)
            if p.get("records"):        # MX / SRV: this many maximal exchange names per answer (the datagram stays below 64 kB)
                size = p["records"] * {"T": 153, "S": 183, "U": 183, "V": 214}[p.get("downenc", "T")] - 2 - p.get("short", 0)
            self.chain = {"i": 0, "n": p.get("n", 16), "size": size,
                          "seq": (real["dseq"] + 3) % 8, "downenc": p.get("downenc", "T"), "step": "%s/%d" % (q["kind"], q["k"])}
        if self.chain is not None and q and q["kind"] in ("ping", "data") and self.chain["i"] < self.chain["n"]:
            c = self.chain
            i = c["i"]
            c["i"] += 1
            body = bytes((37 * i + j) & 255 for j in range(c["size"]))
            payload = bytes([0x80, (c["seq"] << 5) | ((i & 15) << 1)]) + body
            data = proto.build_data_answer(q["id"], q["labels"], q["qtype"], payload, c["downenc"])
            self.injected += 1
            return [(self.latency, data, dg.src, dg.dst,
                     {"kind": "chain", "matched": True, "hostile": True, "step": c["step"], "len": len(data)})]
        if p is None or p.get("done"):
            return scen.Relay.route(self, world, dg)
        p["done"] = True
        out = []
        what = p.get("what", "hostile")
        for i in range(p.get("n", 1)):
            if what == "histx":
                # history differential (C12): an ignorable but LONG reply (stale id) whose content depends on the run's
                # variant, then the same test reply in every variant - what the client makes of the second one must
                # not depend on what the first one left in any of its buffers
                v = p.get("variant", 0)
                fill = bytes([[0x68, 0x41, 0xe9, 0x00][v % 4]]) * 3000
                near = {(q["id"] + kk * 7727) & 0xFFFF for kk in range(-4, 200)} | set(q.get("ids", ()))
                wid = (q["id"] + 31337) & 0xFFFF
                while wid in near:
                    wid = (wid + 1) & 0xFFFF
                if i == 0:
                    tq = q["qtype"]
                    data = proto.build_data_answer(wid, q["labels"], tq, bytes([0x80, 0x00]) + fill,
                                                   "R" if tq in (D.T_NULL, D.T_PRIVATE, D.T_TXT) else "T")
                    tag = {"kind": "histfill", "matched": False}
                else:
                    rr = self.hrng_fixed(p, i)
                    tag, data = hostile.hist_probe(rr, q, i)
            elif what == "edge":
                tag, data = hostile.edge_reply(self.hrng, q, p.get("size_idx", 0) + i)
            elif what == "hostile" and i % 4 == self.edge_phase:
                # (in a handshake step only the FIRST reply meets the query it was made for - the client asks again with a
                #  new id - so the position of the buffer-edge replies rotates with the run's seed)
                tag, data = hostile.edge_reply(self.hrng, q, i // 4 + self.edge_off)
            elif what == "hostile":
                tag, data = hostile.client_reply(self.hrng, q, real=dg.data)
            elif what == "trunc":
                data = hostile.answer_truncations(self.hrng, dg.data)
                tag = {"kind": "trunc", "matched": True}
                if i % 2 == 1:
                    # every other cut-down variant arrives right behind a complete copy of the answer it was made from:
                    # what is missing from it is then exactly what the previous datagram left in the receive buffer
                    out.append((self.latency + 20 * len(out), dg.data, dg.src, dg.dst,
                                {"kind": "fullcopy", "matched": True, "hostile": True,
                                 "step": "%s/%d" % (q["kind"], q["k"]), "len": len(dg.data)}))
                    self.injected += 1
            else:
                data = proto.build_data_answer(q["id"], q["labels"], q["qtype"], bytes.fromhex(p["payload"]),
                                               p.get("downenc", "T"))
                tag = {"kind": "payload", "matched": True}
            tag = dict(tag, hostile=True, step="%s/%d" % (q["kind"], q["k"]), len=len(data))
            out.append((self.latency + 20 * len(out), data, dg.src, dg.dst, tag))
            self.injected += 1
        if p.get("mode", "prepend") == "prepend":
            for r in scen.Relay.route(self, world, dg):
                out.append((self.latency + 20 * len(out) + 50,) + tuple(r[1:]))
        return out


def client_steps(trace, inst="C0"):
    """Group the client's boundary events by the datagram it had just read.
    -> list of dict(tag, data, outs=[...]) in the order the datagrams were consumed."""
    fifo = []
    steps = []
    cur = None
    for e in trace:
        ev = e["ev"]
        if ev == "Deliver" and e.get("to") == inst:
            fifo.append(e)
        elif ev == "Recv" and e["inst"] == inst:
            d = fifo.pop(0) if fifo else None
            cur = {"tag": (d or {}).get("tag"), "data": (d or {}).get("data", b""), "outs": [], "t": e["t"]}
            steps.append(cur)
        elif e.get("inst") == inst and cur is not None:
            if ev == "Send":
                cur["outs"].append(("send", e["data"].hex()))
            elif ev == "TunWrite":
                cur["outs"].append(("tunw", e["data"].hex()))
            elif ev == "System":
                cur["outs"].append(("system", e["cmd"]))
            elif ev == "Exit":
                cur["outs"].append(("exit", e["code"]))
            elif ev == "CliState":
                st = e["st"]
                cur["outs"].append(("state", json.dumps([st.get("in"), st.get("out"), st.get("resent")])))
    return steps


def execute(spec):
    """spec = {seed, sess:{Session kwargs}, plan:[...], dur_ms, pkts:[...], residue: mode or None}"""
    import runs
    res = {"spec": spec, "label": spec.get("label"), "steps": [], "stats": {}, "san": None, "hang": False,
           "error": None, "systems": [], "exits": []}
    relay = Mitm(spec["seed"], plan=[dict(p) for p in spec.get("plan", [])], **spec.get("relay", {}))
    sess = None
    try:
        sess = scen.Session(runs.bdir(), seed=spec["seed"], relay=relay, tag="m%d" % spec["seed"], **spec.get("sess", {}))
        w = sess.w
        if spec.get("residue"):
            w.k.cmd("residue %s" % spec["residue"])
        if spec.get("dump_clients"):
            w.dump_clients = True
        if spec.get("host"):
            # the tools installed on the client's host (harness/simk.c: host_profile)
            w.k.cmd("hostprofile %d" % spec["host"])
        hs = sess.handshake(limit=spec.get("hs_limit_ms", 400000) * 1000)
        res["stats"]["handshake"] = hs
        t0 = w.now
        rng = random.Random(spec["seed"] * 7 + 1)
        frames = {}
        if hs:
            for i, (t_ms, side, dst, kind, size) in enumerate(spec.get("pkts", [])):
                fr = scen.make_packet(runs.side_ip(sess, side), runs.side_ip(sess, dst), kind, size, rng, i + 1)
                frames[fr] = i + 1
                w.tun_inject(side, fr, at=t0 + t_ms * 1000)
            w.run_until(t=t0 + spec.get("dur_ms", 8000) * 1000)
        res["frames"] = {k.hex(): v for k, v in frames.items()}
        res["steps"] = client_steps(w.trace)
        res["systems"] = [(e["inst"], e["cmd"]) for e in w.trace if e["ev"] == "System"]
        res["exits"] = [(e["inst"], e["code"]) for e in w.trace if e["ev"] == "Exit"]
        res["stats"]["injected"] = relay.injected
        res["stats"]["kinds"] = dict(relay.kcount)
        res["san"] = runs.sanitizer_report(w.k.stderr_text(30000))
    except W.KernelDied as ex:
        res["san"] = runs.sanitizer_report(ex.stderr_tail) or ("kernel died: %s\n%s" % (ex, ex.stderr_tail[-1500:]))
    except W.KernelHang as ex:
        res["hang"] = True
        res["error"] = str(ex)
    finally:
        if sess is not None:
            sess.close()
    return res
