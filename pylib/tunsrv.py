"""Layer A binding of the data plane, server half (spec/TraceTunnelSrv.tla).

From the recorded trace of a single-client DNS-mode run, one event per step of the real iodined's event loop after
the handshake: the abstract message it read (or the tun packet, or nothing: the 20 ms sweep), the answers it emitted
and the projection of users[0] afterwards.  Packets are numbered per run (the check renumbers them per TLC file):
upstream packet i = i-th frame offered on the client's tun, downstream packet i = i-th frame offered on the server's.
"""
import zlib

import dnsmsg as D
import proto
import codec as CD

UNKNOWN = 99999


def _proj(u):
    q, qrs = u["q"], u["qrs"]
    return {"iseq": u["in"][0], "ifrag": u["in"][1], "ilen": u["in"][2],
            "oseq": u["out"][0], "ofrag": u["out"][1], "olen": u["out"][2], "ooff": u["out"][3], "osent": u["out"][4],
            "resent": u["resent"], "outq": u["outq"],
            "q": q, "q2": u["q2"] if q else 0, "qrs": qrs, "qrs2": u["qrs2"] if qrs else 0}


def _locate(body, images, hint=None):
    """(packet index, offset) of body inside one of the compressed images; (0, 0) if none, offset UNKNOWN if ambiguous"""
    if not body:
        return 0, 0
    cands = []
    for idx, img in images.items():
        off = img.find(body)
        while off >= 0:
            cands.append((idx, off))
            off = img.find(body, off + 1)
    if not cands:
        return 0, 0
    if len(cands) == 1:
        return cands[0]
    if hint in cands:
        return hint
    return cands[0][0], UNKNOWN


def abstract(w, sess, frames, t0, hs_len, res):
    users = [x for x in (res["stats"].get("users") or []) if x.get("auth")]
    if len(users) != 1 or users[0].get("conn") == 0 or not res["stats"].get("handshake"):
        return None
    if sess.cfg.get("qtype") in ("CNAME", "A") and (sess.cfg.get("fragsize") or 0) > 120:
        # fragment size forced above what one host name carries: the encoder truncates every answer.  Tunnel.tla
        # assumes what the probe guarantees (a fragment of the negotiated size fits an answer)
        res["stats"]["tsrv_skip"] = "fragsize forced above the record type's capacity"
        return None
    enc = CD.NAMES.get(users[0].get("enc"), "b32")
    uid = users[0]["u"]
    # packets by side, in the order they were offered
    up, dn = {}, {}
    upimg, dnimg = {}, {}
    for e in w.trace:
        if e["ev"] == "TunOffer":
            side = up if e["inst"] != "S" else dn
            img = upimg if e["inst"] != "S" else dnimg
            if e["data"] not in side:
                side[e["data"]] = len(side) + 1
                img[side[e["data"]]] = zlib.compress(e["data"], 9)
    names, variants = {}, {}
    fifo = []
    evs = []
    cur = None
    state0 = None
    started = False
    fragsize = lazy = None
    lastpk = 0
    for i, e in enumerate(w.trace):
        ev = e["ev"]
        if ev == "Deliver" and e.get("to") == "S":
            fifo.append(e)
        elif ev == "Wake" and e["inst"] == "S":
            cur = {"hs": [], "out": [], "tunw": [], "i": i}
        elif e.get("inst") == "S" and cur is not None and ev == "Recv":
            d = fifo.pop(0) if fifo else None
            cur["hs"].append(("Recv", d))
        elif e.get("inst") == "S" and cur is not None and ev == "TunRead":
            cur["hs"].append(("Tun", e["data"]))
        elif e.get("inst") == "S" and cur is not None and ev == "Send":
            cur["out"].append(e["data"])
        elif e.get("inst") == "S" and cur is not None and ev == "TunWrite":
            cur["tunw"].append(e["data"])
        elif ev == "SrvState":
            u = [x for x in e["users"] if x["u"] == uid]
            if not u:
                cur = None
                continue
            u = u[0]
            if i < hs_len or cur is None:
                state0 = u
                cur = None
                continue
            if not started:
                started = True
                fragsize, lazy = (state0 or u)["fragsize"], (state0 or u)["lazy"]
                evs.append({"e": "Start", "st": _proj(state0 or u)})
            rec = {"e": "Iter", "st": _proj(u), "out": [], "tunw": [up.get(fr, 0) for fr in cur["tunw"]], "hs": []}
            if u["fragsize"] != fragsize or u["lazy"] != lazy:
                # settings changed after the handshake (lazy mode switched off by the client, new fragment size):
                # Tunnel.tla models one fixed setting - the bound prefix ends here
                res["stats"]["tsrv_truncated"] = "fragment size / lazy mode changed mid-transfer"
                break
            for hk, arg in cur["hs"]:
                if hk == "Recv":
                    data = arg["data"] if arg else b""
                    m = D.parse(data) if data[:3] != proto.RAW_HDR else None
                    if m is None or not m.qd or m.qr or m.errors:
                        continue
                    labels, qt, _ = m.qd[0]
                    c = proto.classify_query(labels, sess.domain)
                    if c["kind"] not in ("ping", "data") or c.get("uid") != uid:
                        continue
                    low = b".".join(l.lower() for l in labels)
                    exact = b".".join(labels)
                    # Tunnel.tla's "name" is the QUESTION: every memory of the server (held query, answer cache, query
                    # memory) compares the record type along with the name
                    nm = names.setdefault((low, qt), len(names) + 1)
                    vs = variants.setdefault((low, qt), [])
                    if exact not in vs:
                        vs.append(exact)
                    msg = {"k": "Recv", "id": m.id, "nm": nm, "cs": vs.index(exact), "kind": c["kind"], "useq": 0,
                           "ufrag": 0, "dseq": c["dseq"], "dfrag": c["dfrag"], "last": 0, "pkt": 0, "off": 0, "len": 0,
                           "p": 0}
                    if c["kind"] == "data":
                        body = CD.decode(enc, c["enc"])
                        # ambiguous (tiny) slices: prefer the continuation of the packet being reassembled
                        pk, off = _locate(body, upimg, hint=(lastpk, state0["in"][2]) if state0 else None)
                        if off == UNKNOWN:
                            pk = 0
                        # only a slice that entered the reassembly buffer tells which packet is being reassembled
                        if pk and u["in"][:3] != state0["in"][:3] and u["in"][2] > 0:
                            lastpk = pk
                        msg.update(useq=c["useq"], ufrag=c["ufrag"], last=c["last"], pkt=pk, off=off if pk else 0,
                                   len=len(body))
                    rec["hs"].append(msg)
                else:
                    p = dn.get(arg, 0)
                    if p:
                        rec["hs"].append({"k": "Tun", "p": p, "id": 0, "nm": 0, "cs": 0, "kind": "tun", "useq": 0, "ufrag": 0,
                                          "dseq": 0, "dfrag": 0, "last": 0, "pkt": 0, "off": 0, "len": 0})
            for data in cur["out"]:
                m = D.parse(data) if data[:3] != proto.RAW_HDR else None
                if m is None or not m.qd or not m.qr or m.errors:
                    rec["out"].append({"id": 0, "dseq": 0, "dfrag": 0, "useq": 0, "ufrag": 0, "last": 0, "len": 0, "x": 2,
                                       "pk": 0, "off": 0})
                    continue
                pl = proto.decode_answer(m)
                if pl is None or len(pl) < 2:
                    rec["out"].append({"id": m.id, "dseq": 0, "dfrag": 0, "useq": 0, "ufrag": 0, "last": 0, "len": 0,
                                       "x": 1, "pk": 0, "off": 0})
                    continue
                h = proto.parse_data_header(pl)
                body = pl[2:]
                pk, off = _locate(body, dnimg)
                rec["out"].append({"id": m.id, "dseq": h["dseq"], "dfrag": h["dfrag"], "useq": h["useq"],
                                   "ufrag": h["ufrag"], "last": h["last"], "len": len(body), "x": 0,
                                   "pk": pk, "off": off if body else 0})
            evs.append(rec)
            state0 = u
            cur = None
    if not started:
        return None
    return {"events": evs, "up": [len(upimg[i + 1]) for i in range(len(upimg))],
            "dn": [len(dnimg[i + 1]) for i in range(len(dnimg))], "fragsize": fragsize, "lazy": lazy}
