"""Layer A binding of the raw-mode data plane (spec/TraceRawTunnel.tla): one event per iteration of the real server loop
("Srv") and of the real client loop ("Cli") after the handshake of a raw-mode session, in trace order: the handlers that
ran (tun packet / raw frame read / select timeout), the raw frames emitted and the packets written to the tun device.
A data frame is identified by the packet whose compressed image it carries (whole, or cut to 4092 bytes)."""
import zlib

import proto


def _frame(data, images):
    """raw datagram -> (kind, packet index, payload length) or None if it is no raw data / ping frame"""
    if data[:3] != proto.RAW_HDR or len(data) < 4:
        return None
    cmd = data[3] >> 4
    if cmd == 3:
        return ("ping", 0, 0)
    if cmd != 2:
        return None
    pl = data[4:]
    for idx, img in images.items():
        if img == pl or (len(pl) == 4092 and img[:4092] == pl):
            return ("data", idx, len(pl))
    return ("data", 0, len(pl))


def abstract(w, sess, frames, t0, hs_len, res):
    users = [x for x in (res["stats"].get("users") or []) if x.get("auth")]
    if len(users) != 1 or users[0].get("conn") != 0 or not res["stats"].get("handshake"):
        return None
    up, dn, upimg, dnimg = {}, {}, {}, {}
    for e in w.trace:
        if e["ev"] == "TunOffer":
            side, img = (up, upimg) if e["inst"] != "S" else (dn, dnimg)
            if e["data"] not in side:
                side[e["data"]] = len(side) + 1
                img[side[e["data"]]] = zlib.compress(e["data"], 9)
    fifo = {"S": [], "C0": []}
    cur = {}
    evs = []
    for i, e in enumerate(w.trace):
        ev = e["ev"]
        inst = e.get("inst")
        if ev == "Deliver" and e.get("to") in fifo:
            fifo[e["to"]].append(e)
        elif ev == "Exit" and inst == "C0":
            break
        elif ev == "Wake" and inst in fifo:
            cur[inst] = {"hs": [], "out": [], "tunw": [], "timeout": bool(e.get("timeout")), "i": i}
        elif ev == "Recv" and inst in fifo:
            d = fifo[inst].pop(0) if fifo[inst] else None
            if inst in cur:
                cur[inst]["hs"].append(("Frame", d["data"] if d else b""))
        elif ev == "TunRead" and inst in cur:
            cur[inst]["hs"].append(("Tun", e["data"]))
        elif ev == "Send" and inst in cur:
            cur[inst]["out"].append(e["data"])
        elif ev == "TunWrite" and inst in cur:
            cur[inst]["tunw"].append(e["data"])
        elif ev == "Select" and inst in cur:
            c = cur.pop(inst)
            if c["i"] < hs_len:
                continue
            srv = inst == "S"
            rec = {"e": "Srv" if srv else "Cli", "hs": [], "out": [],
                   "tunw": [(up if srv else dn).get(fr, 0) for fr in c["tunw"]]}
            if c["timeout"] and not c["hs"] and not srv:
                rec["hs"].append({"k": "Timeout", "kind": "none", "p": 0, "len": 0})
            for hk, arg in c["hs"]:
                if hk == "Tun":
                    rec["hs"].append({"k": "Tun", "kind": "tun", "p": (dn if srv else up).get(arg, 0), "len": 0})
                else:
                    f = _frame(arg, upimg if srv else dnimg)
                    if f is None:
                        rec["hs"].append({"k": "Other", "kind": "none", "p": 0, "len": 0})
                    else:
                        rec["hs"].append({"k": "Frame", "kind": f[0], "p": f[1], "len": f[2]})
            for data in c["out"]:
                f = _frame(data, dnimg if srv else upimg)
                rec["out"].append({"kind": f[0], "p": f[1], "len": f[2]} if f else {"kind": "other", "p": 0, "len": 0})
            if rec["hs"] or rec["out"] or rec["tunw"]:
                evs.append(rec)
    if not evs:
        return None
    return {"events": evs, "up": [len(upimg[i + 1]) for i in range(len(upimg))],
            "dn": [len(dnimg[i + 1]) for i in range(len(dnimg))]}
