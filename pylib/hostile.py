"""Grammar-based generator of hostile datagrams for the server (C05/C12) and hostile replies for the
client (C06).  Everything is a function of the random.Random instance passed in.  Independent of /repo."""
import struct

import codec
import dnsmsg as D
import proto

QTYPES = [D.T_NULL, D.T_TXT, D.T_CNAME, D.T_MX, D.T_SRV, D.T_A, D.T_PRIVATE, D.T_NS, 255, 0, 28]
CMDS = b"vVlLiIzZsSoOyYrRnNpP0123456789abcdefABCDEFgGxX-_\x80\xff\x00."


def rbytes(rng, n):
    return bytes(rng.getrandbits(8) for _ in range(n))


def hdr(qid, flags, qd, an=0, ns=0, ar=0):
    return struct.pack(">HHHHHH", qid & 0xFFFF, flags & 0xFFFF, qd & 0xFFFF, an & 0xFFFF, ns & 0xFFFF, ar & 0xFFFF)


def rand_label(rng, n, alphabet=None):
    if alphabet is None:
        return rbytes(rng, n)
    return bytes(rng.choice(alphabet) for _ in range(n))


def weird_name_bytes(rng, domain):
    """wire-format name with structural defects"""
    dom = D.wire_name(D.name_to_labels(domain))
    k = rng.randrange(12)
    if k == 0:      # label longer than 63 (reserved bits)
        return bytes([rng.choice([64, 65, 100, 127, 128, 191])]) + rbytes(rng, rng.randrange(0, 200)) + dom
    if k == 1:      # pointer to itself (offset 12)
        return b"\xc0\x0c"
    if k == 2:      # pointer loop between two places
        return b"\x01a\xc0\x0e" + b"\xc0\x0c"
    if k == 3:      # pointer past the end
        return b"\x03abc" + bytes([0xC0 | rng.randrange(0, 64), rng.randrange(0, 256)])
    if k == 4:      # label runs past the end of the datagram
        return bytes([rng.randrange(1, 64)]) + rbytes(rng, rng.randrange(0, 5))
    if k == 5:      # very long name (> 255)
        return b"".join(bytes([63]) + rand_label(rng, 63, b"abcdefgh") for _ in range(rng.randrange(4, 8))) + dom
    if k == 6:      # bytes >= 0x80 everywhere
        return b"".join(bytes([n]) + bytes(rng.randrange(128, 256) for _ in range(n))
                        for n in [rng.randrange(1, 60) for _ in range(rng.randrange(1, 4))]) + dom
    if k == 7:      # no terminator
        return b"\x05abcde" * rng.randrange(1, 40)
    if k == 8:      # pointer exactly to the end / one before
        return b"\x02ab\xc0" + bytes([rng.choice([0x10, 0x11, 0x12, 0x20, 0xFF])])
    if k == 9:      # empty name
        return b"\x00"
    if k == 10:     # dots and NULs inside labels
        return b"\x05a.b\x00c" + dom
    return b"\x3f" + rand_label(rng, 63) + b"\x3f" + rand_label(rng, 63) + b"\x3f" + rand_label(rng, 63) + \
        b"\x3d" + rand_label(rng, 61) + b"\x00"


def command_query(rng, domain, nusers=16):
    """well-formed DNS query under the tunnel domain with a hostile data part"""
    c = bytes([rng.choice(CMDS)])
    uid = rng.choice([0, 1, 2, 3, 4, 5, 15, 16, 31, 200, 255])
    k = rng.randrange(10)
    if k == 0:
        data = c
    elif k == 1:
        data = c + bytes([rng.randrange(256)])
    elif k == 2:
        data = c + rbytes(rng, rng.randrange(1, 6))
    elif k == 3:    # high bytes right where b32_8to5() is applied to raw characters
        data = c + bytes(rng.choice([0x80, 0xff, 0xbc, 0xfd, 0x90, 0x7f]) for _ in range(rng.randrange(1, 8)))
    elif k == 4:    # base32 payload of random bytes (uid first)
        data = c + codec.encode("b32", bytes([uid]) + rbytes(rng, rng.randrange(0, 40)))
    elif k == 5:    # maximal length data part
        data = c + rand_label(rng, rng.randrange(100, 230), b"abcdefghijklmnopqrstuvwxyz012345")
    elif k == 6:    # data header with arbitrary fields + payload in some codec
        data = bytes([rng.choice(b"0123456789abcdefABCDEF")]) + rand_label(rng, 4, codec.B32 + b"ABCXYZ67") + \
            codec.encode(rng.choice(["b32", "b64", "b64u", "b128"]), rbytes(rng, rng.randrange(0, 100)))
    elif k == 7:    # login / setfrag / ping shaped
        data = rng.choice([b"l", b"L", b"n", b"N", b"p", b"P"]) + \
            codec.encode("b32", bytes([uid]) + rbytes(rng, rng.choice([0, 1, 2, 3, 15, 16, 17, 18, 30])))
    elif k == 8:    # fragsize probe shaped
        data = rng.choice([b"r", b"R"]) + rand_label(rng, 3, codec.B32 + b"\x80\xff") + rbytes(rng, rng.randrange(0, 40))
    else:           # codec test shaped
        data = rng.choice([b"y", b"Y", b"z", b"Z", b"s", b"S", b"o", b"O", b"i", b"I"]) + \
            rbytes(rng, rng.randrange(0, 12))
    data = data.replace(b".", b"x")[:230]
    labels = []
    i = 0
    while i < len(data):
        n = rng.choice([57, 63, 1, 30, 57, 57])
        labels.append(data[i:i + n])
        i += n
    labels = [l for l in labels if l] or [b"v"]
    dom = D.name_to_labels(domain)
    if rng.random() < 0.2:
        dom = [bytes((ch ^ 0x20) if 65 <= (ch & ~0x20) <= 90 else ch for ch in l) for l in dom]
    qt = rng.choice(QTYPES)
    q = D.build_query(rng.randrange(0, 65536) if rng.random() < 0.9 else 0, labels + dom, qt, edns=rng.random() < 0.5)
    return q


def malformed_dns(rng, domain):
    k = rng.randrange(10)
    name = weird_name_bytes(rng, domain) if rng.random() < 0.7 else D.wire_name([b"vaaaa"] + D.name_to_labels(domain))
    qtail = struct.pack(">HH", rng.choice(QTYPES), 1)
    if k == 0:      # counts lie
        return hdr(rng.randrange(65536), 0x0100, rng.choice([0, 2, 5, 65535]), rng.choice([0, 1, 300])) + name + qtail
    if k == 1:      # truncated question
        full = hdr(rng.randrange(65536), 0x0100, 1) + name + qtail
        return full[:rng.randrange(0, len(full))]
    if k == 2:      # QR bit set (an answer sent to the server)
        return hdr(rng.randrange(65536), 0x8400, 1, 1) + name + qtail + b"\xc0\x0c" + \
            struct.pack(">HHIH", 10, 1, 0, rng.choice([0, 5, 65535])) + rbytes(rng, rng.randrange(0, 20))
    if k == 3:      # trailing garbage / additional records
        return hdr(rng.randrange(65536), 0x0100, 1, 0, 0, rng.choice([1, 3])) + name + qtail + rbytes(rng, rng.randrange(0, 60))
    if k == 4:      # header only / nearly
        return hdr(rng.randrange(65536), rng.randrange(65536), rng.randrange(3))[:rng.choice([12, 11, 2, 1, 5])]
    if k == 5:      # opcode / flags noise
        return hdr(rng.randrange(65536), rng.randrange(65536), 1) + name + qtail
    return hdr(rng.randrange(65536), 0x0100, 1) + name + qtail


def raw_frame(rng, nusers=16):
    k = rng.randrange(6)
    cmd = rng.choice([0x10, 0x20, 0x30, 0x00, 0x40, 0xF0])
    uid = rng.choice([0, 1, 2, 4, 5, 15])
    h = proto.RAW_HDR + bytes([cmd | uid])
    if k == 0:
        return h[:rng.randrange(0, 5)]
    if k == 1:
        return h + rbytes(rng, rng.randrange(0, 41))
    if k == 2:
        return h + rbytes(rng, rng.choice([15, 16, 17, 100, 1500, 5000]))
    if k == 3:
        return proto.RAW_HDR[:2] + rbytes(rng, rng.randrange(0, 30))
    if k == 4:      # a zlib stream that inflates to something big / garbage
        import zlib
        return h + zlib.compress(bytes(rng.choice([100, 5000, 70000])), 9)
    return h + b"\x78\xda" + rbytes(rng, rng.randrange(0, 60))


def mutate(rng, data):
    if not data:
        return rbytes(rng, 3)
    b = bytearray(data)
    k = rng.randrange(6)
    if k == 0:
        for _ in range(rng.randrange(1, 4)):
            b[rng.randrange(len(b))] = rng.randrange(256)
    elif k == 1:
        return bytes(b[:rng.randrange(0, len(b))])
    elif k == 2:
        i = rng.randrange(len(b))
        b[i:i] = rbytes(rng, rng.randrange(1, 20))
    elif k == 3:
        i = rng.randrange(len(b))
        b[i] ^= 1 << rng.randrange(8)
    elif k == 4:
        i = rng.randrange(len(b))
        del b[i:i + rng.randrange(1, 10)]
    else:
        b = b + rbytes(rng, rng.randrange(1, 300))
    return bytes(b)


def server_datagram(rng, domain, corpus=()):
    """-> (kind, bytes)"""
    k = rng.randrange(100)
    if k < 12:
        n = rng.choice([0, 1, 2, 3, 4, 11, 12, 13, 17, 40, 100, 511, 512, 600]) if rng.random() < 0.6 else rng.randrange(0, 601)
        return "bytes", rbytes(rng, n)
    if k < 14:
        return "bigbytes", rbytes(rng, rng.choice([4096, 16384, 65507]))
    if k < 40:
        return "malformed", malformed_dns(rng, domain)
    if k < 72:
        return "command", command_query(rng, domain)
    if k < 86:
        return "raw", raw_frame(rng)
    if corpus:
        return "mutated", mutate(rng, rng.choice(corpus))
    return "command", command_query(rng, domain)


def tun_packet(rng):
    k = rng.randrange(5)
    if k == 0:
        return rbytes(rng, rng.randrange(1, 4))
    if k == 1:
        return b"\x00\x00\x08\x00" + rbytes(rng, rng.randrange(0, 20))
    if k == 2:
        return rbytes(rng, rng.randrange(4, 40))
    if k == 3:
        return b"\x00\x00\x86\xdd" + rbytes(rng, rng.randrange(0, 60))
    return b"\x00\x00\x08\x00\x45" + rbytes(rng, rng.randrange(0, 1500))


# ------------------------------------------------------------------ C12: datagrams that end early
def label_offsets(data):
    """offsets of the label starts of the question name of a well-formed query"""
    out = []
    pos = 12
    while pos < len(data):
        c = data[pos]
        if c == 0 or c & 0xC0:
            break
        out.append(pos)
        pos += 1 + c
    return out


def aligned_pointer(rng, prev, domain):
    """A short query whose name ends in a compression pointer to offset == its own length, sized so that this
    offset is a label boundary of the (longer) datagram `prev` received just before it."""
    offs = [o for o in label_offsets(prev) if 20 <= o <= 82]
    if not offs:
        return None
    b = rng.choice(offs)
    L = b - 19                       # 12 header + 1 + (1+L... see below)
    # layout: header(12) + len byte(1) + first label (1 + L chars, first char = command) ... keep it simple:
    # 12 + 1 + n + 2 + 4 = b  ->  n = b - 19
    n = b - 19
    if n < 1 or n > 63:
        return None
    cmd = rng.choice([b"z", b"Z", b"v", b"y", b"i", b"p", b"0", b"l"])
    label = cmd + bytes(rng.choice(b"abcdefghijklmnopqrstuvwxyz012345") for _ in range(n - 1))
    qt = rng.choice([D.T_NULL, D.T_TXT, D.T_CNAME, D.T_A])
    return hdr(rng.randrange(1, 65536), 0x0100, 1) + bytes([n]) + label + \
        bytes([0xC0 | (b >> 8), b & 0xFF]) + struct.pack(">HH", qt, 1)


def trailing_label(rng, prev, domain):
    """A query whose name is a (forward) compression pointer to a label placed BEHIND type/class at the very end of
    the datagram; the label's length byte reaches past the end.  With `prev` the overrun is sized so that it ends on a
    label boundary of the previously received datagram."""
    cmd = rng.choice([b"z", b"Z", b"v", b"y", b"p", b"0", b"i"])
    keep = cmd + bytes(rng.choice(b"abcdefghijklmnopqrstuvwxyz012345") for _ in range(rng.randrange(0, 4)))
    pre = b""
    if rng.random() < 0.3:
        pre = bytes([3]) + b"abc"                       # a real label in front of the pointer
    lab_off = 12 + len(pre) + 2 + 4
    L = rng.choice([63, 40, 20, len(keep) + 1, len(keep) + 5])
    if prev is not None:
        offs = [o for o in label_offsets(prev) if lab_off + 1 + len(keep) < o <= lab_off + 1 + 63]
        if offs:
            L = rng.choice(offs) - lab_off - 1
    L = max(len(keep), min(63, L))
    qt = rng.choice([D.T_NULL, D.T_TXT, D.T_CNAME, D.T_A, D.T_MX])
    if rng.random() < 0.3:
        # ... or the label behind type/class is complete and followed by the FIRST byte of a compression pointer as the
        # very last byte of the datagram (the second byte would come from whatever lies behind it)
        return hdr(rng.randrange(1, 65536), 0x0100, 1) + pre + bytes([0xC0 | (lab_off >> 8), lab_off & 0xFF]) + \
            struct.pack(">HH", qt, 1) + bytes([len(keep)]) + keep + bytes([rng.choice([0xC0, 0xC0, 0xC1, 0xFF])])
    return hdr(rng.randrange(1, 65536), 0x0100, 1) + pre + bytes([0xC0 | (lab_off >> 8), lab_off & 0xFF]) + \
        struct.pack(">HH", qt, 1) + bytes([L]) + keep


def truncation_family(rng, valid, domain, prev=None):
    """Datagram shapes derived from a valid query `valid`: truncations, and length fields edited so that a label,
    a compression pointer or the fixed question tail reaches exactly to / one past / far past the end."""
    if prev is not None and rng.random() < 0.3:
        d = aligned_pointer(rng, prev, domain)
        if d is not None:
            return d
    if rng.random() < 0.2:
        return trailing_label(rng, prev, domain)
    k = rng.randrange(12)
    n = len(valid)
    if valid[:3] == proto.RAW_HDR:
        if k < 6:
            return valid[:rng.randrange(0, n + 1)]
        return valid[:4] + valid[4:4 + rng.randrange(0, 20)]
    if k < 4 and n > 0:
        return valid[:rng.randrange(0, n)]                      # plain truncation at every point
    if k == 4:                                                  # cut inside the question tail (type/class)
        return valid[:max(12, n - rng.randrange(1, 16))]
    m = D.parse(valid)
    labels = m.qd[0][0] if m.qd else [b"vaaaa"] + D.name_to_labels(domain)
    if not labels or not labels[0]:
        labels = [b"vaaaa"] + D.name_to_labels(domain)
    qt = m.qd[0][1] if m.qd else 10
    head = hdr(rng.randrange(1, 65536), 0x0100, 1)
    if k == 5:      # first label announces more bytes than the datagram holds
        first = labels[0]
        keep = rng.randrange(0, len(first) + 1)
        return head + bytes([min(63, len(first) + rng.choice([0, 1, 5, 30]))]) + first[:keep]
    if k == 6:      # last label runs exactly to the end; no terminator, no type/class
        w = D.wire_name(labels)
        return head + w[:-1]
    if k == 7:      # name ok, terminator present, type/class missing or partial
        w = D.wire_name(labels)
        return head + w + struct.pack(">HH", qt, 1)[:rng.randrange(0, 4)]
    if k == 8:      # compression pointer as the last label, target == len / len-1 / beyond
        w = D.wire_name(labels[:1])[:-1]
        total = 12 + len(w) + 2 + 4
        tgt = rng.choice([total, total - 1, total + 1, total + 50, 12 + len(w) + 2, 0x3FFF])
        return head + w + bytes([0xC0 | (tgt >> 8) & 0x3F, tgt & 0xFF]) + struct.pack(">HH", qt, 1)
    if k == 9:      # pointer whose second byte is missing
        w = D.wire_name(labels[:1])[:-1]
        return head + w + b"\xc0"
    if k == 10:     # data part shortened but domain kept: a short-but-valid tunnel request
        dom = D.name_to_labels(domain)
        first = labels[0][:rng.randrange(1, max(2, len(labels[0])))]
        return head + D.wire_name([first] + dom) + struct.pack(">HH", qt, 1)
    # header says one question, nothing follows / QDCOUNT bigger than present
    return hdr(rng.randrange(1, 65536), 0x0100, rng.choice([1, 2])) + (D.wire_name(labels) + struct.pack(">HH", qt, 1)
                                                                        if rng.random() < 0.5 else b"")


# ------------------------------------------------------------------ hostile replies for the CLIENT (C06 / C12 / C13)
def _q(qid, flags, labels, qtype, an, ns=0, ar=0):
    return hdr(qid, flags, 1, an, ns, ar) + D.wire_name(labels) + struct.pack(">HH", qtype, 1)


def _rr(name, rtype, rdata, rdlen=None, ttl=0):
    return name + struct.pack(">HHIH", rtype, 1, ttl, len(rdata) if rdlen is None else rdlen & 0xFFFF) + rdata


def hostname_payload(rng, letter, text, tld=b"xy"):
    labels = []
    t = letter + text
    i = 0
    while i < len(t) and len(labels) < 6:
        labels.append(t[i:i + 57])
        i += 57
    return D.wire_name(labels + [tld])


HANDSHAKE_TEXTS = [b"VACK", b"VNAK", b"VFUL", b"LNAK", b"BADIP", b"BADLEN", b"BADCODEC", b"BADFRAG", b"Base32", b"Base64",
                   b"Base64u", b"Base128", b"Lazy", b"Immediate", b"Raw", b"I\x7f\x00\x00\x01",
                   b"1.2.3.4-5.6.7.8-1130-27", b"10.0.0.1-10.0.0.2-99999999999999-4294967295",
                   b"10.0.0.1-10.0.0.2-1130--5", b"10.0.0.1-10.0.0.2-1130-0", b"10.0.0.1-10.0.0.2-1130-33",
                   b"10.0.0.1-10.0.0.2-1130-1000000", b"a" * 70 + b"-b-1-1", b"-" * 40, b"1-2-3-4-5-6-7"]


def hostile_payload(rng, q):
    """payload bytes a hostile server might put into an answer at this step"""
    k = rng.randrange(8)
    if k == 0:
        return rng.choice(HANDSHAKE_TEXTS)
    if k == 1:      # VACK with odd seed / uid
        return b"VACK" + rbytes(rng, 4) + bytes([rng.choice([0, 15, 16, 17, 200, 255])])
    if k == 2:
        return rbytes(rng, rng.choice([0, 1, 2, 3, 5, 50, 200, 1200, 4096, 5000]))
    if k == 3:      # data header + garbage / valid-looking zlib
        return bytes([rng.randrange(256), rng.randrange(256)]) + rbytes(rng, rng.choice([0, 1, 10, 300, 3000]))
    if k == 4:      # fragsize probe shaped
        n = rng.choice([2, 3, 50, 200, 768, 1200, 2047])
        return struct.pack(">H", rng.choice([n, n + 1, 0, 65535])) + bytes([107]) + bytes((i * 107) & 255 for i in range(n))
    if k == 5:
        return proto.DOWNCODECCHECK1[:rng.choice([47, 48])] + rbytes(rng, rng.choice([0, 1]))
    if k == 6:      # echo of the name with changes (upstream codec test)
        t = b".".join(q["labels"])
        return mutate(rng, t)
    return rng.choice(HANDSHAKE_TEXTS) + rbytes(rng, rng.randrange(0, 4))


EDGE_SIZES = [4096, 4095, 4097, 4094, 2048, 2047, 4098, 1024, 5000, 512, 65000, 255, 256]


def edge_reply(rng, q, idx):
    """A matching, well-formed answer whose decoded payload has exactly the size of a buffer the client may be decoding
    into (or one byte less / more), filled with bytes that are neither NUL nor the start of a handshake keyword."""
    n = EDGE_SIZES[idx % len(EDGE_SIZES)]
    fill = bytes([rng.choice(b"xyzq~\x7f\xff\x01")]) * n
    qt = q["qtype"]
    enc = "R" if qt in (D.T_NULL, D.T_PRIVATE, D.T_TXT) else rng.choice("TSUV")
    return {"kind": "bufedge", "matched": True}, proto.build_data_answer(q["id"], q["labels"], qt, fill, enc)


def hist_probe(rng, q, i):
    """Matching replies that end 'early' in the client's own terms: record types crossed between question and answer
    (the decoder picks its branch from the question, the caller its post-processing from the record), short rdata
    without a terminator, short payloads - shapes whose handling could pick up what an earlier, longer reply left behind."""
    qid, labels, qt = q["id"], q["labels"], q["qtype"]
    ptr = b"\xc0\x0c"
    k = i % 6
    if k in (1, 2):
        ta = [D.T_MX, D.T_SRV][k - 1]
        body = rng.choice([b"hfresh", b"hab", b"h" + bytes(rng.choice(b"abcdefgh234567") for _ in range(40))])
        return {"kind": "histprobe-x%s" % D.TYPENAMES.get(ta, ta), "matched": True}, \
            _q(qid, 0x8400, labels, rng.choice([D.T_NULL, D.T_PRIVATE, qt]), 1) + _rr(ptr, ta, body)
    if k == 3:
        return {"kind": "histprobe-short", "matched": True}, proto.build_data_answer(qid, labels, qt, bytes([0x80, 0x20]) + b"abc", "T")
    if k == 4:
        return {"kind": "histprobe-txt", "matched": True}, _q(qid, 0x8400, labels, D.T_TXT, 1) + _rr(ptr, D.T_TXT, b"\x04tabc")
    if k == 5:
        return {"kind": "histprobe-cname", "matched": True}, _q(qid, 0x8400, labels, rng.choice([D.T_CNAME, D.T_A]), 1) + \
            _rr(ptr, D.T_CNAME, b"\x04habc\x02xy\x00")
    return {"kind": "histprobe-null", "matched": True}, _q(qid, 0x8400, labels, D.T_NULL, 1) + _rr(ptr, D.T_NULL, b"\x80\x20zz")


def client_reply(rng, q, real=None):
    """q = dict(id, labels, qtype, ids=[recent ids]).  -> (tag dict, bytes).
    tag['matched'] tells whether id and question fit the query the client is waiting for."""
    qid, labels, qt = q["id"], q["labels"], q["qtype"]
    k = rng.randrange(100)
    ptr = b"\xc0\x0c"
    if k < 6:
        return {"kind": "bytes", "matched": False}, rbytes(rng, rng.choice([0, 1, 5, 11, 12, 13, 30, 200, 600, 5000]))
    if k < 14:      # well-formed answer, wrong id -> must be ignored
        # the client's ids advance by 7727 per query: stay clear of every id it used recently or will use soon
        near = {(qid + k * 7727) & 0xFFFF for k in range(-4, 200)} | set(q.get("ids", ()))
        wid = (qid + rng.choice([1, 2, 3, 7, 1000, 7726, 30000])) & 0xFFFF
        while wid in near:
            wid = (wid + 1) & 0xFFFF
        pl = hostile_payload(rng, q)
        return {"kind": "wrongid", "matched": False}, proto.build_data_answer(wid, labels, qt, pl, rng.choice("TSUVR"))
    if k < 19:      # right id, question does not fit (first character)
        l2 = [bytes([rng.choice(b"qwxQWX7-")]) + labels[0][1:]] + labels[1:]
        pl = hostile_payload(rng, q)
        return {"kind": "wrongname", "matched": False}, proto.build_data_answer(qid, l2, qt, pl, "T")
    if k < 24:      # DNS error codes
        return {"kind": "rcode", "matched": True}, _q(qid, 0x8180 | rng.choice([1, 2, 3, 4, 5, 9, 15]), labels, qt, 0)
    if k < 30 and real:
        return {"kind": "mutated", "matched": True}, mutate(rng, real)
    if k < 34:      # raw frames on the DNS socket
        return {"kind": "raw", "matched": False}, raw_frame(rng)
    if k < 44:      # well-formed answer with a hostile payload in the right encoding
        pl = hostile_payload(rng, q)
        return {"kind": "payload", "matched": True}, proto.build_data_answer(qid, labels, qt, pl, rng.choice("TTTSUVR"))
    if k < 50:
        # the question says one record type, the answer record another (the decoder picks its branch from the
        # question and the caller its post-processing from the record): rdata without any NUL byte that fills the
        # caller's buffer to the last byte, so that anything treating it as a string runs off the end
        tq = rng.choice([qt, D.T_NULL, D.T_PRIVATE, D.T_TXT, D.T_CNAME, D.T_A, D.T_MX, D.T_SRV])
        ta = rng.choice([D.T_MX, D.T_SRV, D.T_CNAME, D.T_TXT, D.T_NULL, D.T_A, D.T_PRIVATE])
        n = rng.choice([4094, 4095, 4096, 4097, 5000, 2, 100, 20000])
        fill = bytes([rng.choice(b"hHiIkKtTrRA\xff\x01")]) * n
        if tq == D.T_TXT:
            body = b"".join(bytes([min(255, len(fill) - i)]) + fill[i:i + 255] for i in range(0, len(fill), 255))
        else:
            body = fill
        return {"kind": "xtype-%s-%s" % (D.TYPENAMES.get(tq, tq), D.TYPENAMES.get(ta, ta)), "matched": True}, \
            _q(qid, 0x8400, labels, tq, 1) + _rr(ptr, ta, body)
    # structurally hostile answer sections, per type
    t = rng.choice([qt, qt, qt, D.T_NULL, D.T_TXT, D.T_CNAME, D.T_MX, D.T_SRV, D.T_A])
    head = lambda an: _q(qid, 0x8400, labels, t if rng.random() < 0.8 else qt, an)
    tag = {"kind": "struct-%s" % D.TYPENAMES.get(t, t), "matched": True}
    j = rng.randrange(8)
    if t in (D.T_NULL, D.T_PRIVATE):
        body = rbytes(rng, rng.choice([0, 1, 2, 10, 100, 4096, 5000]))
        rdlen = rng.choice([len(body), len(body) + 1, len(body) + 100, 65535, 0, 1, max(0, len(body) - 1)])
        return tag, head(rng.choice([1, 1, 2, 0, 300])) + _rr(ptr, t, body, rdlen)
    if t == D.T_TXT:
        chunks = b""
        for _ in range(rng.randrange(0, 6)):
            n = rng.choice([0, 1, 50, 252, 255])
            chunks += bytes([min(255, rng.choice([n, n, n + 1, 255]))]) + bytes([rng.choice(b"tsuvrTSUVRhx\x00\xff")]) + \
                rand_label(rng, max(0, n - 1), None if rng.random() < 0.3 else b"abcdefgh0123456789+-_" + bytes(range(0xBC, 0xFE)))
        rdlen = rng.choice([len(chunks), len(chunks), len(chunks) + 1, len(chunks) + 300, 0, 65535])
        return tag, head(1) + _rr(ptr, D.T_TXT, chunks, rdlen)
    if t in (D.T_CNAME, D.T_A):
        choice = rng.randrange(6)
        if choice == 0:     # compression loop inside rdata
            name = b"\x01h\xc0" + bytes([rng.choice([0x0c, 0x20, 0xff])])
        elif choice == 1:   # pointer to itself
            off = 12 + len(D.wire_name(labels)) + 4 + 2 + 10
            name = bytes([0xC0 | (off >> 8), off & 0xFF])
        elif choice == 2:   # over-long labels
            name = bytes([rng.choice([64, 100, 191])]) + rbytes(rng, 100)
        elif choice == 3:   # hostile text under every codec letter
            name = hostname_payload(rng, bytes([rng.choice(b"hijkHIJKtx")]),
                                    rand_label(rng, rng.randrange(0, 240), None if rng.random() < 0.5 else codec.B128))
        elif choice == 4:   # unterminated
            name = b"\x3f" + rand_label(rng, 63, b"abc") + b"\x3f" + rand_label(rng, 20, b"abc")
        else:
            name = hostname_payload(rng, b"h", b"")
        rt = rng.choice([D.T_CNAME, D.T_CNAME, D.T_A])
        rdlen = rng.choice([len(name), len(name), 4, 0, len(name) + 50, 65535])
        return tag, head(rng.choice([1, 2])) + _rr(ptr, rt, name, rdlen)
    # MX / SRV
    nrec = rng.choice([1, 2, 3, 10, 249, 250, 251, 300])
    prefs = list(range(10, 10 * nrec + 1, 10))
    style = rng.randrange(5)
    if style == 1:
        rng.shuffle(prefs)
    elif style == 2:    # gaps, duplicates, non-multiples, out of range
        prefs = [rng.choice([0, 5, 10, 10, 20, 25, 40, 2490, 2500, 2510, 65535]) for _ in range(nrec)]
    out = b""
    for i, p in enumerate(prefs):
        nm = hostname_payload(rng, bytes([rng.choice(b"hijkH")]), rand_label(rng, rng.choice([0, 1, 4, 100, 230]), codec.B32))
        if style == 3 and i % 7 == 3:
            nm = b"\xc0" + bytes([rng.randrange(256)])
        rd = struct.pack(">H", p) + (struct.pack(">HH", 10, 5060) if t == D.T_SRV else b"") + nm
        rdlen = len(rd) if style != 4 else rng.choice([len(rd), len(rd) + 1, 2, 0, 65535, 300])
        out += _rr(ptr, t, rd, rdlen)
    cnt = rng.choice([nrec, nrec, nrec + 1, 65535 if nrec < 5 else nrec])
    return tag, _q(qid, 0x8400, labels, t, cnt) + out


def answer_truncations(rng, real):
    """C12, client side: shapes derived from a REAL answer `real` that end early."""
    n = len(real)
    k = rng.randrange(10)
    m = D.parse(real)
    if k < 3 or not m.an:
        return real[:rng.randrange(12, max(13, n))]
    if k >= 8:
        # cut exactly on a record boundary: the datagram ends right after the fixed part of a record (usually the last
        # one) whose RDLENGTH is patched to the 0 / 1 / 2 bytes that are left - fields the decoder reads from the rdata
        # without looking at RDLENGTH (MX preference, SRV weight / port, first TXT length) then come from the residue
        rr2 = m.an[-1] if rng.random() < 0.7 else rng.choice(m.an)
        left = rng.choice([0, 0, 1, 2])
        return real[:rr2.rdoff - 2] + struct.pack(">H", left) + real[rr2.rdoff:rr2.rdoff + left]
    rr = m.an[0]
    rdl_off = rr.rdoff - 2
    rdlen = len(rr.rdata)
    if k == 3:      # RDLENGTH larger than what is present
        return real[:rdl_off] + struct.pack(">H", rdlen + rng.choice([1, 10, 100, 1000, 4000])) + real[rdl_off + 2:]
    if k == 4:      # same, and cut the datagram inside the rdata
        cut = rr.rdoff + rng.randrange(0, rdlen + 1)
        return real[:rdl_off] + struct.pack(">H", rng.choice([rdlen, rdlen + 50, 4096])) + real[rdl_off + 2:cut]
    if k == 5 and rr.type == D.T_TXT and rdlen > 1:     # first TXT chunk length exceeds the data
        return real[:rr.rdoff] + bytes([255]) + real[rr.rdoff + 1:]
    if k == 7 and rr.type in (D.T_CNAME, D.T_MX, D.T_SRV, D.T_NS):
        # rdata fully present but the name inside it is one over-long label: RDLENGTH and every length check agree,
        # only the label runs past the end of the datagram
        fixed = 2 if rr.type == D.T_MX else 6 if rr.type == D.T_SRV else 0
        pre = real[rr.rdoff:rr.rdoff + fixed]
        lab = bytes([rng.choice([63, 40, 12])]) + rng.choice([b"h", b"i", b"j", b"k", b"hab"])
        if rng.random() < 0.4:
            # ... or a complete short label followed by the FIRST byte of a compression pointer as the last byte
            lab = bytes([4]) + rng.choice([b"haaa", b"iabc", b"kzzz"]) + bytes([rng.choice([0xC0, 0xC0, 0xFF])])
        m2 = real[:rdl_off] + struct.pack(">H", len(pre) + len(lab)) + pre + lab
        return m2
    if k == 6 and rr.names:                             # name in rdata replaced by pointer to == len / beyond
        newlen = rr.rdoff + 2 + (2 if rr.type == D.T_MX else 6 if rr.type == D.T_SRV else 0)
        pre = real[rr.rdoff:newlen - 2]
        tgt = rng.choice([newlen, newlen - 1, newlen + 40])
        return real[:rdl_off] + struct.pack(">H", len(pre) + 2) + pre + bytes([0xC0 | (tgt >> 8) & 0x3F, tgt & 0xFF])
    return real[:max(12, n - rng.randrange(1, 30))]
