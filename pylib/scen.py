"""Scenario building blocks: relay / fault policies, session set-up, packet generators."""
import random
import struct

import dnsmsg as D
import proto
import world as W

DOMAIN = "t.example.com"
PASSWORD = "s3cret-pw"
TUN_NET = "10.0.0"


# ------------------------------------------------------------------ relay

def _map_labels(labels, fn, ndomain):
    """apply fn to the data labels (all but the last ndomain labels)"""
    k = len(labels) - ndomain
    return [fn(l) for l in labels[:k]] + labels[k:]


def serialize(m, an=None):
    """Re-encode a parsed message (no compression except owner = question name)."""
    an = m.an if an is None else an
    out = bytearray(struct.pack(">HHHHHH", m.id, m.flags, len(m.qd), len(an), len(m.ns), len(m.ar)))
    for labels, t, c in m.qd:
        out += D.wire_name(labels) + struct.pack(">HH", t, c)
    qn = m.qd[0][0] if m.qd else None
    for rr in list(an) + list(m.ns) + list(m.ar):
        if qn is not None and rr.name == qn:
            out += b"\xc0\x0c"
        else:
            out += D.wire_name(rr.name)
        rd = rr.rdata
        if rr.type in (D.T_CNAME, D.T_NS) and rr.names:
            rd = D.wire_name(rr.names[0])
        elif rr.type == D.T_MX and rr.names:
            rd = struct.pack(">H", rr.extra["pref"]) + D.wire_name(rr.names[0])
        elif rr.type == D.T_SRV and rr.names:
            rd = struct.pack(">HHH", rr.extra["pref"], rr.extra["weight"], rr.extra["port"]) + \
                D.wire_name(rr.names[0])
        elif rr.type == D.T_TXT and "strings" in rr.extra:
            rd = b"".join(bytes([len(s)]) + s for s in rr.extra["strings"]) or b"\x00"
        out += struct.pack(">HHIH", rr.type, rr.cls, rr.ttl, len(rd)) + rd
    return bytes(out)


class Relay(W.NetPolicy):
    """A DNS path between clients and the server.

    Fixed transformation (applies for the whole run, as C11 quantifies):
      qcase/acase: keep|lower|upper|random   q8/a8: clean|strip|reject
      qpunct/apunct: keep|plus|under         types: set of allowed qtypes (None = all)
      limit: max answer size (None)          edns: honour EDNS0 (else 512 limit w/o it)
      rewrite_id: give every forwarded query a fresh id, map answers back
    Faults (only inside [fault_from, fault_to) virtual microseconds):
      p_drop, p_dup, p_delay (+max_delay), plan: {(dir, n): 'drop'|'dup'|'delay'|'dupid'}
    """

    def __init__(self, seed=1, latency=1000, **kw):
        W.NetPolicy.__init__(self, latency)
        self.rng = random.Random(seed)
        self.qcase = kw.get("qcase", "keep")
        self.acase = kw.get("acase", "keep")
        self.q8 = kw.get("q8", "clean")
        self.a8 = kw.get("a8", "clean")
        self.qpunct = kw.get("qpunct", "keep")
        self.apunct = kw.get("apunct", "keep")
        self.types = kw.get("types")
        self.limit = kw.get("limit")
        self.edns = kw.get("edns", True)
        self.rewrite_id = kw.get("rewrite_id", False)
        self.p_drop = kw.get("p_drop", 0.0)
        self.p_dup = kw.get("p_dup", 0.0)
        self.p_delay = kw.get("p_delay", 0.0)
        self.p_dupid = kw.get("p_dupid", 0.0)
        self.max_delay = kw.get("max_delay", 3000000)
        self.fault_from = kw.get("fault_from", 0)
        self.fault_to = kw.get("fault_to", 0)
        self.plan = kw.get("plan", {})
        self.domain = kw.get("domain", DOMAIN)
        self.ndom = len(D.name_to_labels(self.domain))
        self.idmap = {}     # (clientaddr, newid) -> (oldid, qname labels as sent by client)
        self.next_id = 0x4000 + (seed * 7919) % 0x3000
        self.count = {"q": 0, "a": 0}
        self.log = []       # (dir, n, fate)
        self.blackout = kw.get("blackout")      # list of (dir, t0, t1)
        # re-delivery plan: {n: [(back, newid, flip, otherport, delay_us), ...]}: when the n-th query
        # (since the counters were reset) is forwarded, also re-deliver the (n-back)-th one
        self.redeliver = kw.get("redeliver", {})
        self.qhist = []
        # late copies of the session's own handshake queries (codec switch, options, fragment size, login, ...) in the
        # middle of the transfer: {n: [(kind, delay_us), ...]}, kind as classified by proto.classify_query
        self.hs_qhist = []
        self.redeliver_hs = kw.get("redeliver_hs", {})
        # late copies of downstream answers: [{"dseq": s, "delays_us": [...]}]: every NULL / PRIVATE answer that carries
        # data of downstream packet s is delivered again after each of the delays
        self.dup_down = kw.get("dup_down", [])
        # held-back upstream data queries: [{"useq": s, "ufrag": f, "delay_us": d, "count": n}]: the first n data queries
        # that carry fragment f of upstream packet s travel d microseconds longer (two consecutive queries swap places)
        self.hold_up = [dict(h) for h in kw.get("hold_up", [])]
        # ... "delay_us": -1 loses that query instead

    # -- transformations
    def _case(self, mode, b):
        if mode == "lower":
            return b.lower()
        if mode == "upper":
            return b.upper()
        if mode == "random":
            return bytes((c ^ 0x20) if (65 <= (c & ~0x20) <= 90 and self.rng.random() < 0.5) else c for c in b)
        return b

    def _punct(self, mode, b):
        if mode == "plus":
            return b.replace(b"+", b" ")
        if mode == "under":
            return b.replace(b"_", b"-")
        return b

    def _eight(self, mode, b):
        if mode == "strip":
            return bytes(c & 0x7F for c in b)
        return b

    def _xq(self, b):
        return self._eight(self.q8, self._punct(self.qpunct, self._case(self.qcase, b)))

    def _xa(self, b):
        return self._eight(self.a8, self._punct(self.apunct, self._case(self.acase, b)))

    def transforming(self):
        return (self.qcase, self.acase, self.q8, self.a8, self.qpunct, self.apunct) != \
            ("keep", "keep", "clean", "clean", "keep", "keep") or self.types is not None or \
            self.limit is not None or not self.edns or self.rewrite_id

    # -- the path
    def errreply(self, m, rcode):
        return struct.pack(">HHHHHH", m.id, 0x8180 | rcode, 1, 0, 0, 0) + \
            D.wire_name(m.qd[0][0]) + struct.pack(">HH", m.qd[0][1], m.qd[0][2])

    def query(self, world, dg):
        """-> list of (data, src, dst) to forward (possibly a synthesized reply to the client)"""
        if not self.transforming() or dg.data[:3] == proto.RAW_HDR:
            return [(dg.data, dg.src, dg.dst)]
        m = D.parse(dg.data)
        if m.errors or not m.qd or m.qr:
            return [(dg.data, dg.src, dg.dst)]
        labels, qt, qc = m.qd[0]
        if self.types is not None and qt not in self.types:
            return [(self.errreply(m, 4), dg.dst, dg.src)]
        if self.q8 == "reject" and any(c >= 0x80 for l in labels for c in l):
            return [(self.errreply(m, 1), dg.dst, dg.src)]
        nl = _map_labels(labels, self._xq, self.ndom)
        has_edns = any(r.type == D.T_OPT for r in m.ar)
        qid = m.id
        if self.rewrite_id:
            self.next_id = (self.next_id + 1) & 0xFFFF or 1
            qid = self.next_id
            self.idmap[(dg.src, qid)] = m.id
        data = D.build_query(qid, nl, qt, edns=(has_edns and self.edns))
        self.idmap[(dg.src, "edns", qid)] = has_edns and self.edns
        return [(data, dg.src, dg.dst)]

    def answer(self, world, dg):
        if not self.transforming() or dg.data[:3] == proto.RAW_HDR:
            return [(dg.data, dg.src, dg.dst)]
        m = D.parse(dg.data)
        if m.errors or not m.qd or not m.qr:
            return [(dg.data, dg.src, dg.dst)]
        lim = self.limit
        if not self.idmap.get((dg.dst, "edns", m.id), True):
            lim = 512 if lim is None else min(lim, 512)
        if lim is not None and len(dg.data) > lim:
            self.log.append(("a", "oversize", len(dg.data)))
            return []
        if self.a8 == "reject":
            for rr in m.an:
                hi = any(c >= 0x80 for nm in rr.names for l in nm for c in l) or \
                    any(c >= 0x80 for st in rr.extra.get("strings", []) for c in st)
                if hi:
                    self.log.append(("a", "reject8", len(dg.data)))
                    m.id = self.idmap.get((dg.dst, m.id), m.id) if self.rewrite_id else m.id
                    return [(self.errreply(m, 2), dg.src, dg.dst)]
        for rr in m.an:
            if rr.names:
                rr.names = [_map_labels(rr.names[0], self._xa, 1)]
            if "strings" in rr.extra:
                rr.extra["strings"] = [self._xa(s) for s in rr.extra["strings"]]
        if self.rewrite_id:
            old = self.idmap.get((dg.dst, m.id))
            if old is None:
                # an answer for somebody whose query did not come through this relay (the scripted peers of `occupy` /
                # `prior` talk to the server directly) is not this relay's to rewrite; an unknown id for one of the
                # relay's own clients is dropped
                return [] if dg.dst[0].startswith("10.9.1.") else [(dg.data, dg.src, dg.dst)]
            m.id = old
        data = serialize(m)
        return [(data, dg.src, dg.dst)]

    def fate(self, world, dg, d):
        n = self.count[d]
        self.count[d] += 1
        if (d, n) in self.plan:
            return self.plan[(d, n)]
        if self.blackout:
            for bd, t0, t1 in self.blackout:
                if bd in (d, "*") and t0 <= world.now < t1:
                    return "drop"
        if self.fault_from <= world.now < self.fault_to:
            r = self.rng.random()
            if r < self.p_drop:
                return "drop"
            if r < self.p_drop + self.p_dup:
                return "dup"
            if r < self.p_drop + self.p_dup + self.p_delay:
                return "delay"
            if d == "q" and r < self.p_drop + self.p_dup + self.p_delay + self.p_dupid:
                return "dupid"
        return "ok"

    def route(self, world, dg):
        to_server = dg.dst[1] == 53 and dg.dst[0] == W.SERVER_IP
        from_server = dg.src[1] == 53 and dg.src[0] == W.SERVER_IP
        if not (to_server or from_server):
            return [(self.latency, dg.data, dg.src, dg.dst)]
        d = "q" if to_server else "a"
        dg.dir = d
        f = self.fate(world, dg, d)
        self.log.append((d, self.count[d] - 1, f))
        if f == "drop":
            return []
        outs = self.query(world, dg) if to_server else self.answer(world, dg)
        res = []
        if to_server and self.redeliver is not None:
            n = self.count["q"] - 1
            if outs and outs[0][2] == dg.dst and outs[0][0][:3] != proto.RAW_HDR:
                self.qhist.append((n, dg.serial, outs[0]))
            for entry in self.redeliver.get(n, self.redeliver.get(str(n), [])):
                back, newid, flip, otherport, delay = entry[:5]
                retype = entry[5] if len(entry) > 5 else 0      # the copy asks the same name with another record type
                cands = [h for h in self.qhist if h[0] == n - back]
                if not cands:
                    continue
                _, oserial, (odata, osrc, odst) = cands[0]
                nd = odata
                if newid and len(nd) > 2:
                    nid = (struct.unpack(">H", nd[:2])[0] + 1000 * int(newid) + 17 * back) & 0xFFFF or 9     # newid = 1, 2, ...: distinct new ids
                    self.idmap[(osrc, nid)] = self.idmap.get((osrc, struct.unpack(">H", nd[:2])[0]),
                                                            struct.unpack(">H", nd[:2])[0])
                    nd = struct.pack(">H", nid) + nd[2:]
                if flip:
                    nd = flipcase_qname(nd, self.ndom, int(flip))
                if retype:
                    m2 = D.parse(nd)
                    if not m2.errors and m2.qd and m2.qd[0][1] != retype:
                        nd = D.build_query(m2.id, m2.qd[0][0], retype, edns=any(r.type == D.T_OPT for r in m2.ar))
                src2 = (osrc[0], osrc[1] + 1000) if otherport else osrc
                res.append((self.latency + delay, nd, src2, odst,
                            {"redeliver_of": oserial, "newid": bool(newid), "flip": bool(flip),
                             "otherport": bool(otherport), "back": back, "retype": retype}))
        if to_server and self.redeliver_hs:
            n = self.count["q"] - 1
            for kind, delay in self.redeliver_hs.get(n, self.redeliver_hs.get(str(n), [])):
                for _, oserial, (odata, osrc, odst) in reversed(self.hs_qhist):
                    m0 = D.parse(odata)
                    if not m0.errors and m0.qd and proto.classify_query(m0.qd[0][0], self.domain).get("kind") == kind:
                        res.append((self.latency + delay, odata, osrc, odst,
                                    {"redeliver_of": oserial, "newid": False, "flip": False, "otherport": False,
                                     "back": -1, "hs": kind}))
                        break
        if from_server and self.dup_down and dg.data[:3] != proto.RAW_HDR:
            m = D.parse(dg.data)
            if m.qr and m.an and not m.errors and m.an[0].type in (D.T_NULL, D.T_PRIVATE) and len(m.an[0].rdata) > 2:
                ds = (m.an[0].rdata[1] >> 5) & 7
                for dd in self.dup_down:
                    if dd["dseq"] == ds:
                        for delay in dd["delays_us"]:
                            for data, src, dst in outs:
                                res.append((self.latency + delay, data, src, dst, {"late_copy": ds}))
        if to_server and self.hold_up and outs and dg.data[:3] != proto.RAW_HDR:
            m = D.parse(dg.data)
            if not m.errors and m.qd and not m.qr:
                c = proto.classify_query(m.qd[0][0], self.domain)
                for h in self.hold_up:
                    if c["kind"] == "data" and (c["useq"], c["ufrag"]) == (h["useq"], h["ufrag"]) and h.get("count", 1) > 0:
                        h["count"] = h.get("count", 1) - 1
                        if h["delay_us"] < 0:
                            self.log.append(("q", self.count["q"] - 1, "lost"))
                            return res
                        self.log.append(("q", self.count["q"] - 1, "held"))
                        return res + [(self.latency + h["delay_us"], data, src, dst) for data, src, dst in outs]
        for data, src, dst in outs:
            if f == "id0" and to_server and len(data) > 2 and data[:3] != proto.RAW_HDR:
                # a relay that happens to pick DNS id 0 for the forwarded query ("no query" for the server)
                old = struct.unpack(">H", dg.data[:2])[0]
                self.idmap[(dg.src, 0)] = self.idmap.get((dg.src, struct.unpack(">H", data[:2])[0]), old)
                data = b"\x00\x00" + data[2:]
            if f == "delay":
                res.append((self.latency + self.rng.randrange(1000, self.max_delay), data, src, dst))
            else:
                res.append((self.latency, data, src, dst))
            if f == "dup":
                res.append((self.latency + self.rng.randrange(0, 400000), data, src, dst))
            if f == "dupid" and to_server and len(data) > 2:
                nid = (struct.unpack(">H", data[:2])[0] + 1 + self.rng.randrange(1, 5000)) & 0xFFFF or 7
                if self.rewrite_id or True:
                    old = struct.unpack(">H", dg.data[:2])[0]
                    self.idmap[(dg.src, nid)] = self.idmap.get((dg.src, struct.unpack(">H", data[:2])[0]), old)
                res.append((self.latency + self.rng.randrange(0, 300000),
                            struct.pack(">H", nid) + data[2:], src, dst))
        return res


def flipcase_qname(data, ndom, mode=1):
    """swap the case of ASCII letters in the data labels of the question name: mode 1 every letter, mode k > 1 every
    k-th byte position only (several different spellings of one name)"""
    m = D.parse(data)
    if m.errors or not m.qd:
        return data
    labels, qt, qc = m.qd[0]
    nl = _map_labels(labels, lambda b: bytes((c ^ 0x20) if (65 <= (c & ~0x20) <= 90 and c < 128 and
                                                             (mode <= 1 or i % mode == 1)) else c
                                                   for i, c in enumerate(b)), ndom)
    has_edns = any(r.type == D.T_OPT for r in m.ar)
    return D.build_query(m.id, nl, qt, edns=has_edns)


# ------------------------------------------------------------------ packets

def payload_bytes(kind, n, rng):
    if kind == "zero":
        return bytes(n)
    if kind == "ff":
        return b"\xff" * n
    if kind == "text":
        return (b"The quick brown fox jumps over the lazy dog. " * (n // 45 + 1))[:n]
    return bytes(rng.getrandbits(8) for _ in range(n))


def twin_payload(seedv, n, second):
    """Two incompressible payloads of n bytes that differ only by (+1, -2, +1) at two spots: each such triple leaves
    both Adler-32 sums unchanged, so ANY splice of one packet's head with the other's tail at a fragment boundary
    between the spots carries a correct checksum although it equals neither packet (an adversarial case for the
    assumption that zlib rejects mis-assembled packets)."""
    r = random.Random(seedv)
    b = bytearray(r.randrange(2, 254) for _ in range(n))
    if second:
        for spot in (24, n - 40):
            b[spot] += 1
            b[spot + 1] -= 2
            b[spot + 2] += 1
    return bytes(b)


def make_packet(src, dst, kind, n, rng, ident):
    """An IPv4 frame (with 4-byte tun header) whose payload starts with a unique ident."""
    if kind.startswith("twin"):
        which, seedv = kind.split(":")
        body = struct.pack(">I", 0x7717) + twin_payload(int(seedv), max(80, n - 4), which == "twinB")
        return proto.tun_frame(proto.ipv4_packet(src, dst, body))
    if kind.startswith("embed:"):
        return embed_packet(src, dst, kind, n, rng, ident)
    body = struct.pack(">I", ident) + payload_bytes(kind, max(0, n - 4), rng)
    return proto.tun_frame(proto.ipv4_packet(src, dst, body))


FABRICATED_MARK = b"FABRICATED-BY-MISASSEMBLY"


def embed_packet(src, dst, kind, n, rng, ident):
    """kind = "embed:<F>": an incompressible packet (zlib stores it verbatim) whose compressed image carries, exactly at
    the fragment boundary F, a complete zlib stream of a small IP frame that nobody ever offered.  A receiver
    that starts reassembling in the middle of this packet (fragment 1 taken for a packet start) hands that stream
    to uncompress() - which succeeds - and would write the fabricated frame to its tun device."""
    import zlib
    parts = kind.split(":")
    F = int(parts[1])
    kk = int(parts[2]) if len(parts) > 2 else 1       # the fragment boundary that carries the stream
    r = random.Random(ident * 31 + F)
    # two different streams (a repeated one would be found by deflate and the packet no longer stored verbatim)
    embs = [zlib.compress(proto.tun_frame(proto.ipv4_packet(dst, src, FABRICATED_MARK + bytes(r.randrange(1, 255) for _ in range(6)))), 9)
            for _ in (1, 2)]
    emb = embs[0]
    head = 7 + 4 + 20 + 4           # zlib header + stored-block header, tun header, IP header, ident
    body = bytearray(struct.pack(">I", ident))
    for k in (kk,):
        want = k * F - head + 4      # offset inside body where the stream must start (body starts at image offset head-4)
        while len(body) < want:
            body.append(r.randrange(1, 255))
        if len(body) == want:
            body += embs[0]
    while len(body) < max(n, 2 * F + len(emb) + 40):
        body.append(r.randrange(1, 255))
    frame = proto.tun_frame(proto.ipv4_packet(src, dst, bytes(body)))
    img = zlib.compress(frame, 9)
    if img[7:7 + len(frame)] != frame or img.find(emb) != kk * F:
        # not stored verbatim / header sizes differ from the assumption: fall back to a plain packet
        return proto.tun_frame(proto.ipv4_packet(src, dst, struct.pack(">I", ident) + payload_bytes("rand", n, rng)))
    return frame


# ------------------------------------------------------------------ sessions

class Session:
    """Real server + n real clients through a relay; runs the real handshake."""

    def __init__(self, bdir, seed=1, relay=None, nclients=1, qtype="NULL", downenc=None, lazy=1,
                 maxlen=None, fragsize=None, raw=False, interval=None, server_args=(), netbits=24,
                 password=PASSWORD, domain=DOMAIN, tag="s", client_pw=None, dump_users=False,
                 server_domain=None, occupy=0, prior=False, hs_tun=0, pw_via="arg", challenges=()):
        self.relay = relay or Relay(seed)
        self.w = W.World(bdir, seed=seed, policy=self.relay, tag=tag)
        self.w.dump_users = dump_users
        self.domain = domain
        self.server_ip = TUN_NET + ".1"
        # pw_via: how the programs are given the password - "arg" (-P), "env" (IODINE_PASS / IODINED_PASS), "cenv" / "senv"
        # (only the client / only the server from the environment)
        senv = pw_via in ("env", "senv")
        cenv = pw_via in ("env", "cenv")
        sargs = ["-f", "-4"] + ([] if senv else ["-P", password]) + list(server_args) + \
            ["%s/%d" % (self.server_ip, netbits), server_domain or domain]
        self.w.spawn("S", "S", sargs, env={"IODINED_PASS": password} if senv else None)
        if challenges:
            # the next challenges the server issues (its rand() is the harness's): boundary values of the 32-bit arithmetic
            self.w.k.cmd("forcerand S " + " ".join(str(int(c)) for c in challenges))
        # other peers that only opened a session (version request) before our clients start: the clients then get the
        # higher slots (userid 10..15 is a LETTER in every data query name)
        for k in range(occupy):
            labels = proto.qname(proto.q_version(4000 + k), domain)
            self.w.run_until(t=self.w.now + 2000)
            self.w._arrive(0, D.build_query(7000 + k, labels, D.T_NULL, edns=False), ("10.9.3.%d" % (k + 1), 5353),
                           (W.SERVER_IP, 53))
        if occupy:
            self.w.run_until(t=self.w.now + 5000)
        if prior:
            self._prior_session(password, domain, prior if isinstance(prior, dict) else {})
        self.clients = []
        # packets for the client that turn up on the server's tun device while the handshake is still going on (right after
        # the login was accepted - a peer behind the server that keeps talking to a reconnecting client)
        self.hs_tun = hs_tun
        self.hs_frames = []
        self.cfg = dict(qtype=qtype, downenc=downenc, lazy=lazy, maxlen=maxlen, fragsize=fragsize,
                        raw=raw, interval=interval)
        for k in range(nclients):
            cargs = ["-f"] + ([] if cenv else ["-P", client_pw or password])
            if not raw:
                cargs.append("-r")
            if qtype:
                cargs += ["-T", qtype]
            if downenc:
                cargs += ["-O", downenc]
            if lazy is not None:
                cargs += ["-L", str(lazy)]
            if maxlen:
                cargs += ["-M", str(maxlen)]
            if fragsize:
                cargs += ["-m", str(fragsize)]
            if interval:
                cargs += ["-I", str(interval)]
            cargs += [W.SERVER_IP, domain]
            name = "C%d" % k
            self.w.spawn(name, name, cargs, env={"IODINE_PASS": client_pw or password} if cenv else None)
            self.clients.append(name)

    def _prior_session(self, password, domain, opt):
        """An earlier tenant of slot 0: a peer on a clean path opens a session, logs in, switches to Base128 upstream,
        Base128 downstream, immediate mode and a large fragment size - and is then never heard of again.  65 s later the
        slot is free for the run's own client, which must start from the protocol defaults."""
        w = self.w
        src = ("10.9.4.1", 5454)
        got = []
        w.endpoints[src] = lambda wd, serial, s_, d_, data: got.append(data)

        def ask(name, qid):
            del got[:]
            w._arrive(0, D.build_query(qid, proto.qname(name, domain), D.T_NULL, edns=False), src, (W.SERVER_IP, 53))
            w.run_until(t=w.now + 5000)
            return proto.decode_answer(D.parse(got[-1])) if got else None
        pl = ask(proto.q_version(9000), 9000)
        if not pl or pl[:4] != b"VACK" or len(pl) < 9:
            return
        seed = int.from_bytes(pl[4:8], "big", signed=True)
        uid = pl[8]
        ask(proto.q_login(uid, proto.login_hash(password.encode(), seed), 9001), 9001)
        ask(proto.q_switch_codec(uid, 7, 9002), 9002)
        ask(proto.q_option(uid, "v", 9003), 9003)
        ask(proto.q_option(uid, "i", 9004), 9004)
        frag = opt.get("frag", 1150)
        ask(proto.q_setfrag(uid, frag, 9005), 9005)
        ask(proto.q_ping(uid, 0, 0, 9006), 9006)
        if opt.get("halfsent"):
            # ... and it vanishes in the middle of a downstream packet: the first fragment acknowledged, the second in
            # flight.  The packet is a crafted one (a zlib stream of a never-offered frame sits exactly at the first
            # fragment boundary of its stored image), so whoever were sent "the rest" of it would write that frame.
            lg = ask(proto.q_login(uid, proto.login_hash(password.encode(), seed), 9007), 9007)
            tip = TUN_NET + ".%d" % (uid + 2)
            if lg and lg.count(b"-") == 3:
                tip = lg.split(b"-")[1].decode("latin-1")
            # (the new tenant's first ping acknowledges "sequence 0, fragment 0", which is what the restarted numbering
            # says too: the stale packet moves on by one more fragment before its rest is sent - boundary 2)
            fr = make_packet(self.server_ip, tip, "embed:%d:%d" % (frag, opt.get("boundary", 2)), 4 * frag + 80,
                             random.Random(77), 4242)
            w.tun_inject("S", fr)
            w.run_until(t=w.now + 5000)
            pl = ask(proto.q_ping(uid, 0, 0, 9008), 9008)
            h = proto.parse_data_header(pl) if pl else None
            if h:
                ask(proto.q_ping(uid, h["dseq"], h["dfrag"], 9009), 9009)
            self.prior_frame = fr
        w.run_until(t=w.now + 65_000_000)

    def handshake_done(self, name):
        """The client prints nothing we can see; it is in the tunnel loop when it selects on tun."""
        inst = self.w.insts[name]
        return inst.state == "sel" and inst.tunfd in inst.selfds

    def _hs_pred(self, w):
        if self.hs_tun and not self.hs_frames:
            us = [u for u in w.users() if u["active"] and u["auth"]]
            if us:
                rng = random.Random(4711)
                for j in range(self.hs_tun):
                    fr = make_packet(self.server_ip, TUN_NET + ".%d" % (us[0]["u"] + 2), "text", 60 + j, rng, 9000 + j)
                    self.hs_frames.append(fr)
                    w.tun_inject("S", fr, at=w.now + 150 * j)
        return all(self.handshake_done(c) or w.insts[c].state == "dead" for c in self.clients)

    def handshake(self, limit=600_000_000):
        ok = self.w.run_until(t=self.w.now + limit, pred=self._hs_pred)
        return all(self.handshake_done(c) for c in self.clients)

    def client_tun_ip(self, k):
        for e in self.w.trace:
            if e["ev"] == "System" and e["inst"] == "C%d" % k and "ifconfig" in e["cmd"] and "netmask" in e["cmd"]:
                return e["cmd"].split()[3]
        return None

    def close(self):
        self.w.close()
