"""Execute one simulated run (real client(s) + real server) from a JSON-able spec and
abstract its trace into the event lists the TLA+ monitors consume.

spec = {seed, sess:{Session kwargs}, relay:{Relay kwargs}, pkts:[[t_ms, side, dst, kind, size]...],
        dur_ms, fault_ms:[from,to] (relative to end of handshake), plan:[[dir,n,fate]...],
        hs_faults: bool (faults active during handshake as well)}
"""
import random
import struct

import dnsmsg as D
import proto
import scen
import world as W

_bdir = None


_bdirs = {}


def bdir(flavour=None):
    """build directory of the harness for /repo's current tree; flavour "uchar" = compiled with -funsigned-char"""
    global _bdir
    if not flavour:
        if _bdir is None:
            _bdir = W.build_dir()
        return _bdir
    if flavour not in _bdirs:
        _bdirs[flavour] = W.build_dir(flavour)
    return _bdirs[flavour]


def side_ip(sess, side):
    if side == "S":
        return sess.server_ip
    return sess.client_tun_ip(int(side[1])) or "10.0.0.%d" % (int(side[1]) + 2)


def sanitizer_report(text):
    for key in ("ERROR: AddressSanitizer", "runtime error:", "ERROR: LeakSanitizer", "AddressSanitizer:DEADLYSIGNAL"):
        i = text.find(key)
        if i >= 0:
            return text[max(0, i - 200):i + 2500]
    return None


def execute(spec, want=("C01",), keep_trace=False):
    seed = spec["seed"]
    rk = dict(spec.get("relay", {}))
    if "types" in rk and rk["types"] is not None:
        rk["types"] = set(rk["types"])
    relay = scen.Relay(seed, **rk)
    res = {"spec": spec, "mon": {}, "stats": {}, "san": None, "hang": False, "error": None}
    sess = None
    try:
        sess = scen.Session(bdir(spec.get("flavour")), seed=seed, relay=relay, tag="r%d" % seed, **spec.get("sess", {}))
        w = sess.w
        if "C16" in want or "state" in want or "TSRV" in want or "C02" in want:
            w.dump_users = True
        if "TCLI" in want:
            w.dump_clients = True
        if "C08" in want:
            w.dump_users = True
            w.k.cmd("dumpin 1")
        hs = sess.handshake()
        res["stats"]["handshake"] = hs
        res["stats"]["hs_end_us"] = w.now
        t0 = w.now
        hs_trace_len = len(w.trace)
        # faults relative to handshake end
        if "fault_ms" in spec:
            relay.fault_from = t0 + spec["fault_ms"][0] * 1000
            relay.fault_to = t0 + spec["fault_ms"][1] * 1000
        if "blackout_ms" in spec:
            relay.blackout = [(d, t0 + a * 1000, t0 + b * 1000) for d, a, b in spec["blackout_ms"]]
        if spec.get("relay_hs_only"):
            relay.qcase = relay.acase = relay.qpunct = relay.apunct = "keep"
            relay.q8 = relay.a8 = "clean"
        relay.count = {"q": 0, "a": 0}
        relay.plan = {(d, n): f for d, n, f in spec.get("plan", [])}
        relay.redeliver = {int(k): v for k, v in spec.get("redeliver", {}).items()}
        relay.hs_qhist = list(relay.qhist)
        relay.redeliver_hs = {int(k): v for k, v in spec.get("redeliver_hs", {}).items()}
        relay.qhist = []
        rng = random.Random(seed * 7 + 1)
        frames = {}
        for ra in spec.get("replay_ack", []):
            # at exact instants (microseconds after the handshake) the path delivers again the OLDEST ping it has seen
            # since the handshake that acknowledges downstream (dseq, dfrag) - with a new id, optionally from another port
            for k, at in enumerate(ra["at_us"]):
                w.call_at(t0 + at, lambda w_=w, ra_=ra, k_=k: _replay_ack(w_, relay, sess, ra_, k_))
        if hs:
            for i, (t_ms, side, dst, kind, size) in enumerate(spec.get("pkts", [])):
                if kind.startswith("frags:"):
                    fr = fit_fragments(w, sess, side, dst, kind, rng, i + 1)
                    if fr is None:
                        continue
                    frames[fr] = i + 1
                    w.tun_inject(side, fr, at=t0 + t_ms * 1000)
                    continue
                if kind.startswith("embedfit"):
                    # embed:<F> with F = what one fragment carries in this session and direction
                    unit = frag_unit(w, sess, side)
                    if unit is None:
                        continue
                    kind = "embed:%d%s" % (unit, kind[len("embedfit"):])
                    size = max(size, 3 * unit + 60)
                fr = scen.make_packet(side_ip(sess, side), side_ip(sess, dst), kind, size, rng, i + 1)
                frames[fr] = i + 1
                w.tun_inject(side, fr, at=t0 + int(t_ms * 1000))
            w.run_until(t=t0 + spec.get("dur_ms", 20000) * 1000)
        res["stats"]["steps"] = w.steps
        res["stats"]["end_us"] = w.now
        res["stats"]["fates"] = _count([f for _, _, f in relay.log])
        res["stats"]["exits"] = [(e["inst"], e["code"]) for e in w.trace if e["ev"] == "Exit"]
        users = w.users()
        # sessions of the run's own clients first (slots opened by other peers - "occupy" - never log in)
        res["stats"]["users"] = sorted([{k: u[k] for k in ("u", "active", "auth", "enc", "downenc", "fragsize", "lazy", "conn")}
                                        for u in users if u["active"]], key=lambda x: (not x["auth"], x["u"]))
        for m in want:
            fn = ABSTRACT.get(m)
            if fn:
                res["mon"][m] = fn(w, sess, frames, t0, hs_trace_len, res)
        if keep_trace:
            res["trace"] = w.trace
        res["san"] = sanitizer_report(w.k.stderr_text(20000))
    except W.KernelDied as ex:
        res["san"] = sanitizer_report(ex.stderr_tail) or ("kernel died: %s\n%s" % (ex, ex.stderr_tail[-1500:]))
    except W.KernelHang as ex:
        res["hang"] = True
        res["error"] = str(ex)
    finally:
        if sess is not None:
            sess.close()
    return res


def _replay_ack(w, relay, sess, ra, k):
    import struct
    for n, oserial, (odata, osrc, odst) in relay.qhist:
        m = D.parse(odata)
        if m.errors or not m.qd or m.qr:
            continue
        c = proto.classify_query(m.qd[0][0], sess.domain)
        if c["kind"] == "ping" and (c["dseq"], c["dfrag"]) == (ra["dseq"], ra["dfrag"]):
            nid = (m.id + 1000 * (k + 1) + 17) & 0xFFFF or 9
            nd = struct.pack(">H", nid) + odata[2:] if ra.get("newid", 1) else odata
            src2 = (osrc[0], osrc[1] + 1000) if ra.get("otherport") else osrc
            back = relay.count["q"] - 1 - n
            w._arrive(oserial, nd, src2, odst, {"redeliver_of": oserial, "newid": bool(ra.get("newid", 1)), "flip": False,
                                                "otherport": bool(ra.get("otherport")), "back": back})
            return


def frag_unit(w, sess, side):
    """bytes of a compressed image one fragment carries: the negotiated downstream fragment size, or what one upstream
    data query carries with the session's codec, -M limit and domain (build_hostname's arithmetic)"""
    import codec as CD
    us = [u for u in w.users() if u["active"] and u["auth"]]
    if not us or us[0]["conn"] == 0:
        return None
    if side == "S":
        return min(us[0]["fragsize"], 4094)
    space = min(sess.cfg.get("maxlen") or 255, 255) - len(sess.domain) - 8
    space -= space // 57
    return CD.declen(CD.NAMES.get(us[0]["enc"], "b32"), space)


def fit_fragments(w, sess, side, dst, kind, rng, ident):
    """kind = "frags:<n>:<slack>": an incompressible packet whose compressed image needs exactly n fragments in this
    session (n * unit - slack bytes; unit = the negotiated downstream fragment size, or what one upstream data query
    carries with the session's codec, -M limit and domain - build_hostname's arithmetic)."""
    import zlib
    import codec as CD
    _, n, slack = kind.split(":")
    us = [u for u in w.users() if u["active"] and u["auth"]]
    if not us or us[0]["conn"] == 0:
        return None
    unit = frag_unit(w, sess, side)
    if unit is None:
        return None
    if slack.startswith("t"):
        target = (int(n) - 1) * unit + int(slack[1:])       # "t<k>": the last fragment carries exactly k bytes
    else:
        target = int(n) * unit - int(slack)
    if target < 60 or target > 60000:
        return None
    size = max(8, target - 60)
    fr = None
    for _ in range(40):
        r2 = random.Random(ident * 7919 + size)
        fr = scen.make_packet(side_ip(sess, side), side_ip(sess, dst), "rand", size, r2, ident)
        cl = len(zlib.compress(fr, 9))
        if cl == target:
            return fr
        size += target - cl
        if size < 8:
            return None
    return None


def _count(xs):
    d = {}
    for x in xs:
        d[x] = d.get(x, 0) + 1
    return d


# ------------------------------------------------------------------ abstractions

def abs_c01(w, sess, frames, t0, hs_len, res):
    """Offer(side,p) for every frame a program read from its tun; Write(side,p) for every tun write,
    p = id of the injected frame with exactly these bytes, 0 (= Fabricated) if there is none."""
    evs = []
    nfrag_writes = 0
    for e in w.trace:
        if e["ev"] == "TunRead" and e["data"] is not None:
            p = frames.get(e["data"])
            if p is not None and e["n"] == len(e["data"]):
                evs.append({"e": "Offer", "side": e["inst"], "p": p})
        elif e["ev"] == "TunWrite":
            p = frames.get(e["data"], 0)
            evs.append({"e": "Write", "side": e["inst"], "p": p})
            if p == 0:
                res.setdefault("fabricated", []).append(e["data"][:64].hex())
            nfrag_writes += 1
    res["stats"]["writes"] = nfrag_writes
    res["stats"]["offers"] = sum(1 for x in evs if x["e"] == "Offer")
    return evs


ABSTRACT = {"C01": abs_c01}


# ---- C14 / C15 share the server view
import wire


def _sview(w, sess):
    if not hasattr(w, "_sview"):
        w._sview = wire.server_view(w.trace, sess.domain)
    return w._sview


def abs_c14(w, sess, frames, t0, hs_len, res):
    """Recv / Ans / StepEnd events for MonAnswers."""
    evs = []
    n = 0
    for r in _sview(w, sess):
        if r["k"] == "recv" and not r["raw"] and r.get("dns"):
            n += 1
            tun = r["cls"]["kind"] in ("ping", "data")
            holder = "%s#%s" % (r["src"], r["cls"].get("uid")) if tun else r["src"]
            uid = r["cls"].get("uid") if tun and isinstance(r["cls"].get("uid"), int) else -1
            evs.append({"e": "Recv", "n": n, "src": r["src"], "holder": holder, "uid": uid, "id": r["id"], "qn": r["qn"], "qt": r["qt"],
                        "tun": tun, "lk": wire.qn_str([l.lower() for l in r["labels"]])})
        elif r["k"] == "send" and not r["raw"]:
            pl = r.get("payload")
            hdr = bool(pl is not None and len(pl) >= 2 and pl[:3] not in (b"BAD", b"VAC", b"VNA", b"VFU", b"LNA") and
                       r["cls"]["kind"] in ("ping", "data"))
            if r.get("dns") and r.get("qr"):
                evs.append({"e": "Ans", "dst": r["dst"], "id": r["id"], "qn": r["qn"], "qt": r["qt"], "hdr": hdr,
                            "lk": wire.qn_str([l.lower() for l in r["labels"]])})
                if r["cls"]["kind"] == "version" and pl and pl[:4] == b"VACK" and len(pl) >= 9:
                    evs.append({"e": "NewSession", "u": pl[8]})
            elif r["dst"].endswith(":53") is False and r.get("dns"):
                evs.append({"e": "Ans", "dst": r["dst"], "id": r["id"], "qn": r["qn"], "qt": r["qt"], "hdr": hdr,
                            "lk": wire.qn_str([l.lower() for l in r["labels"]])})
            else:
                evs.append({"e": "Garbage", "dst": r["dst"]})
        elif r["k"] == "stepend":
            if evs and evs[-1]["e"] != "StepEnd":
                evs.append({"e": "StepEnd"})
    res["stats"]["answers"] = sum(1 for x in evs if x["e"] == "Ans")
    res["stats"]["queries"] = n
    return evs


def abs_c15(w, sess, frames, t0, hs_len, res):
    """NewSession / SetFrag / Data events for MonFragsize."""
    imgs = wire.images(frames)
    evs = []
    answered = set()
    acc = {}
    pend_setfrag = {}
    nd = 0
    for r in _sview(w, sess):
        if r["k"] != "send" or r["raw"] or not r.get("dns") or not r.get("qr"):
            continue
        cls = r["cls"]
        pl = r.get("payload")
        key = (r["dst"], r["qn"], r["qt"])
        kind = cls["kind"]
        if kind == "version" and pl and pl[:4] == b"VACK" and len(pl) >= 9:
            u = pl[8]
            evs.append({"e": "NewSession", "u": u})
            acc.pop(u, None)
        elif kind == "setfrag" and pl is not None:
            accepted = (len(pl) == 2 and ((pl[0] << 8) | pl[1]) == cls["size"])
            if pl[:5] != b"BADIP":
                evs.append({"e": "SetFrag", "u": cls["uid"] & 255, "f": cls["size"], "ok": accepted})
        elif kind in ("ping", "data") and pl is not None and len(pl) >= 2 and pl[:5] != b"BADIP":
            if key in answered:
                evs.append({"e": "Replay"})
                continue
            u = cls["uid"] & 255
            h = proto.parse_data_header(pl)
            body = pl[2:]
            if len(body) == 0:
                evs.append({"e": "Dataless", "u": u})
            else:
                st = acc.get(u)
                if st is None or st["dseq"] != h["dseq"]:
                    st = acc[u] = {"dseq": h["dseq"], "frag": h["dfrag"], "buf": body, "lastslice": body}
                elif h["dfrag"] == st["frag"]:
                    if body != st["lastslice"]:
                        # resend with different bytes (fragment size changed mid-packet?): restart tracking
                        st["buf"] = st["buf"][:len(st["buf"]) - len(st["lastslice"])] + body
                        st["lastslice"] = body
                else:
                    st["frag"] = h["dfrag"]
                    st["buf"] += body
                    st["lastslice"] = body
                nd += 1
                evs.append({"e": "Data", "u": u, "len": len(body), "dseq": h["dseq"], "dfrag": h["dfrag"],
                            "last": h["last"], "complete": 1 if st["buf"] in imgs else 0})
        answered.add(key)
    res["stats"]["data_answers"] = nd
    return evs


ABSTRACT["C14"] = abs_c14
ABSTRACT["C15"] = abs_c15


def _pos(u):
    return list(u["in"][:3]) + list(u["out"][:4]) + [u["outq"]]


def abs_c16(w, sess, frames, t0, hs_len, res):
    """NewSession / AnsFirst / Redeliver events for MonRedelivery (needs w.dump_users)."""
    evs = []
    view = _sview(w, sess)
    state = None          # last users[] dump
    redeliv = {}
    for e in w.trace:
        if e["ev"] == "Deliver" and e.get("tag") and "redeliver_of" in e["tag"]:
            redeliv[(e["dg"], e["data"])] = e["tag"]
    cur = None            # the re-delivery being processed in this server step
    outstanding = []      # deliveries not yet answered: dict(src,id,qn,tagged,step)
    step = 0
    last_first = None     # (step, u, qn) of the last AnsFirst, to fold the answer to a remembered duplicate
    nred = 0
    for r in view:
        k = r["k"]
        if k == "state":
            if cur is not None:
                u = cur["u"]
                if u < len(r["users"]):
                    cur["ev"]["pos1"] = _pos(r["users"][u])
                    evs.append(cur["ev"])
                    nred += 1
                cur = None
            state = r["users"]
            step += 1
        elif k == "recv" and not r["raw"] and r.get("dns"):
            cls = r["cls"]
            tag = redeliv.get((r["dg"], r["data"]))
            if cls["kind"] in ("ping", "data"):
                outstanding.append({"src": r["src"], "id": r["id"], "qn": r["qn"], "tagged": bool(tag), "step": step})
            if tag and cls["kind"] in ("ping", "data") and state is not None:
                u = cls["uid"] & 255
                if u >= len(state):
                    continue
                st = state[u]
                lk = wire.qn_str([l.lower() for l in r["labels"]])
                held = []
                heldx = []
                for key in ("qname", "qrsname"):
                    if st[key]:
                        held.append(bytes.fromhex(st[key]).lower())
                        heldx.append(bytes.fromhex(st[key]))
                me = b".".join(r["labels"]).lower()
                mex = b".".join(r["labels"])
                cur = {"u": u, "src": r["src"], "id": r["id"],
                       "ev": {"e": "Redeliver", "u": u, "nm": r["qn"], "lk": lk, "kind": cls["kind"],
                              "pending": me in held, "pos0": _pos(st), "pos1": [], "answered": False,
                              "pl": "", "tag": "%s%s%s back=%d" % ("newid " if tag["newid"] else "",
                                                                   "flip " if tag["flip"] else "",
                                                                   "otherport" if tag["otherport"] else "", tag["back"])}}
                evs.append({"e": "RedBegin", "u": u, "nm": r["qn"], "lk": lk, "kind": cls["kind"],
                            "pending": me in held, "pendingx": mex in heldx})
        elif k == "send" and not r["raw"] and r.get("dns") and r.get("qr"):
            cls = r["cls"]
            pl = r.get("payload")
            if cls["kind"] == "version" and pl and pl[:4] == b"VACK" and len(pl) >= 9:
                evs.append({"e": "NewSession", "u": pl[8]})
                continue
            if cls["kind"] not in ("ping", "data") or pl is None:
                continue
            # the delivery this answer belongs to: the one being processed in this very step if it fits (several
            # copies of one datagram may be outstanding when the server dropped or merged earlier ones), else the oldest
            d = None
            for x in outstanding:
                if x["src"] == r["dst"] and x["id"] == r["id"] and x["qn"] == r["qn"]:
                    if d is None or (x["step"] == step and d["step"] != step):
                        d = x
            if d is not None:
                outstanding.remove(d)
            if cur is not None and d is not None and d["tagged"] and d["step"] == step and \
               r["dst"] == cur["src"] and r["id"] == cur["id"] and r["qn"] == cur["ev"]["nm"]:
                cur["ev"]["answered"] = True
                cur["ev"]["pl"] = pl.hex()
                continue
            if len(pl) < 2 or pl[:5] == b"BADIP":
                continue
            u = cls["uid"] & 255
            lkn = wire.qn_str([l.lower() for l in r["labels"]])
            if last_first == (step, u, lkn, pl):
                continue        # same answer sent to the remembered duplicate as well (its spelling may differ in case)
            last_first = (step, u, lkn, pl)
            evs.append({"e": "AnsFirst", "u": u, "nm": r["qn"],
                        "lk": wire.qn_str([l.lower() for l in r["labels"]]), "kind": cls["kind"], "pl": pl.hex()})
    res["stats"]["redeliveries"] = nred
    return evs


ABSTRACT["C16"] = abs_c16

import tunsrv
import tuncli
import tunraw
ABSTRACT["TRAW"] = tunraw.abstract
ABSTRACT["TSRV"] = tunsrv.abstract
ABSTRACT["TCLI"] = tuncli.abstract


def abs_c02(w, sess, frames, t0, hs_len, res):
    """Mode / Accept / Write / Exit / End events for MonProgress (single client)."""
    import zlib
    import codec as CD
    spec = res["spec"]
    mode = spec.get("mode", "clean")
    post_ms = spec.get("post_ms", 0)
    evs = [{"e": "Mode", "m": mode}]
    users = res["stats"].get("users") or [{}]
    F = users[0].get("fragsize", 100)
    enc = CD.NAMES.get(users[0].get("enc"), "b32")
    raw = users[0].get("conn") == 0
    # upstream capacity: largest decoded payload seen in a data query of the client
    upcap = 1
    pend = None
    accepted = []
    srvstate = None
    myuid = users[0].get("u")
    for e in w.trace:
        ev = e["ev"]
        if ev == "SrvState":
            st = [x for x in e["users"] if x["u"] == myuid]
            srvstate = st[0] if st else None
            continue
        if ev == "Send" and e["inst"] == "C0":
            d = e["data"]
            if d[:3] == proto.RAW_HDR:
                if pend is not None:
                    accepted.append(pend)
                    pend = None
                continue
            m = D.parse(d)
            if m.qd and not m.errors:
                c = proto.classify_query(m.qd[0][0], sess.domain)
                if c["kind"] == "data":
                    upcap = max(upcap, CD.declen(enc, len(c["enc"])))
                    if pend is not None:
                        accepted.append(pend)
                        pend = None
        elif ev == "TunRead" and e["data"] is not None:
            p = frames.get(e["data"])
            if p is None:
                continue
            if e["inst"] == "S":
                # "accepts" = read from the tun device AND kept: the session had no packet in flight or room in its queue
                # of four (with other live sessions around the server keeps reading its tun device while ours is full,
                # and drops what does not fit)
                if srvstate is None or srvstate["out"][2] == 0 or srvstate["outq"] < 4:
                    accepted.append((e["t"], "C0", p, e["data"]))
            else:
                pend = (e["t"], "S", p, e["data"])
        elif ev == "Select" and e["inst"] == "C0":
            pend = None
    acc = {}
    for t, to, p, fr in accepted:
        clen = len(zlib.compress(fr, 9))
        if raw:
            must = True
        elif to == "S":
            must = (clen + upcap - 1) // upcap <= 16
        else:
            must = (clen + F - 1) // max(F, 1) <= 16
        if mode == "faulty" and (t - t0) < post_ms * 1000:
            continue
        acc.setdefault(t, []).append({"e": "Accept", "to": to, "p": p, "t": t // 1000, "must": must})
    out = []
    worst = 0
    tacc = {}
    for e in w.trace:
        if e["ev"] == "TunOffer" and e["data"] in frames and e["t"] >= t0 and \
                (mode == "clean" or (e["t"] - t0) >= post_ms * 1000):
            out.append({"e": "Offer", "side": e["inst"], "p": frames[e["data"]], "t": e["t"] // 1000})
        if e["ev"] == "TunRead" and e["data"] is not None and e["data"] in frames and e["t"] >= t0:
            out.append({"e": "Take", "side": e["inst"], "p": frames[e["data"]], "t": e["t"] // 1000})
        if e["ev"] == "TunRead" and e["t"] in acc:
            for a in acc.pop(e["t"]):
                out.append(a)
                tacc[(a["to"], a["p"])] = a["t"]
        elif e["ev"] == "TunWrite":
            p = frames.get(e["data"], 0)
            if p:
                out.append({"e": "Write", "side": e["inst"], "p": p, "t": e["t"] // 1000})
                if (e["inst"], p) in tacc:
                    worst = max(worst, e["t"] // 1000 - tacc[(e["inst"], p)])
        elif e["ev"] == "Exit":
            out.append({"e": "Exit", "inst": e["inst"], "t": e["t"] // 1000})
    out.append({"e": "End", "t": w.now // 1000})
    res["stats"]["worst_latency_ms"] = worst
    res["stats"]["accepted"] = sum(1 for x in out if x["e"] == "Accept")
    res["stats"]["must"] = sum(1 for x in out if x["e"] == "Accept" and x["must"])
    res["stats"]["upcap"] = upcap
    return evs + out


ABSTRACT["C02"] = abs_c02


def abs_c03s(w, sess, frames, t0, hs_len, res):
    """MonAuth events of a run of the real CLIENT against the real server (the scripted peers of C03 compute the
    response themselves; here the client built from the same tree does): NewSession(u) for every VACK, GoodLogin(u) when
    a login message carries MD5(password xor u's current challenge) by the harness's own MD5, Priv for a login reply
    that discloses addresses, for every tun write of the server and for a session that ends up authenticated."""
    pw = res["spec"].get("server_pw", scen.PASSWORD).encode("latin-1")
    evs = []
    seeds = {}
    asked = {}
    nlogin = 0
    for e in w.trace:
        if e["ev"] == "Deliver" and e.get("to") == "S":
            m = D.parse(e["data"]) if len(e["data"]) >= 12 and e["data"][:3] != proto.RAW_HDR else None
            if m is None or m.errors or not m.qd or m.qr:
                continue
            c = proto.classify_query(m.qd[0][0], sess.domain)
            asked[m.id] = c
            if c["kind"] == "login":
                nlogin += 1
                u = c["uid"]
                if u in seeds and bytes.fromhex(c["hash"]) == proto.login_hash(pw, seeds[u]):
                    evs.append({"e": "GoodLogin", "u": u})
        elif e["ev"] == "Send" and e["inst"] == "S":
            m = D.parse(e["data"]) if len(e["data"]) >= 12 and e["data"][:3] != proto.RAW_HDR else None
            if m is None or m.errors or not m.qd or not m.qr:
                continue
            c = asked.get(m.id) or proto.classify_query(m.qd[0][0], sess.domain)
            pl = proto.decode_answer(m) if m.rcode == 0 else None
            if pl is None:
                continue
            if c["kind"] == "version" and pl[:4] == b"VACK" and len(pl) >= 9:
                seeds[pl[8]] = int.from_bytes(pl[4:8], "big")
                evs.append({"e": "NewSession", "u": pl[8]})
            elif c["kind"] == "login" and pl.count(b"-") == 3 and pl.count(b".") >= 6:
                evs.append({"e": "Priv", "k": "LoginReply", "u": c["uid"]})
        elif e["ev"] == "TunWrite" and e["inst"] == "S":
            evs.append({"e": "Priv", "k": "TunWrite", "u": min(seeds) if seeds else 0})
    for u in w.users():
        if u["active"] and u["auth"]:
            evs.append({"e": "Priv", "k": "Authenticated", "u": u["u"]})
    res["stats"]["logins"] = nlogin
    res["stats"]["goodlogins"] = sum(1 for x in evs if x["e"] == "GoodLogin")
    res["stats"]["privs"] = sum(1 for x in evs if x["e"] == "Priv")
    return evs


ABSTRACT["C03S"] = abs_c03s


def abs_c08(w, sess, frames, t0, hs_len, res):
    """Wire events: every DNS query a real client put on the wire, as a dotted name (strict parser)."""
    evs = []
    L = sess.cfg.get("maxlen") or 255
    dom = [ord(c) for c in sess.domain]
    seen = set()
    for e in w.trace:
        if e["ev"] != "Send" or not e["inst"].startswith("C"):
            continue
        d = e["data"]
        if d[:3] == proto.RAW_HDR:
            continue
        m = D.parse(d)
        name = b".".join(m.qd[0][0]) if (m.qd and not m.errors) else b""
        if name in seen:
            continue
        seen.add(name)
        kind = proto.classify_query(m.qd[0][0], sess.domain).get("kind", "unknown") if m.qd else "unknown"
        evs.append({"e": "Wire", "L": L, "dom": dom, "name": list(name), "kind": kind})
    res["stats"]["wire_names"] = len(evs)
    evs += _extract_events(w, sess, res)
    if res["spec"].get("uppackets") and res["stats"].get("handshake"):
        # clean path: every upstream packet that fits 16 fragments comes out of the server's tun device - in particular
        # those whose last chunk carries a single byte (the shortest data part a name can have)
        written = {e["data"] for e in w.trace if e["ev"] == "TunWrite" and e["inst"] == "S"}
        for fr, idx in frames.items():
            spec_p = res["spec"]["pkts"][idx - 1]
            if spec_p[1] != "S" and spec_p[3].startswith("frags:"):
                evs.append({"e": "UpPacket", "kind": spec_p[3], "written": fr in written})
    return evs


def _extract_events(w, sess, res, cap=40):
    """Extract events: what the real server appended to a session's upstream reassembly buffer when it handled a data
    query of the real client (users[].inpacket before / after the server step), next to the query name and the codec the
    CLIENT is using (b32 until the server acknowledged one of its codec-switch requests).  Only steps that handled exactly
    one data query of that session and left the packet incomplete show the appended bytes."""
    import codec as CD
    evs = []
    bits_name = {5: "b32", 6: "b64", 26: "b64u", 7: "b128"}
    clicodec = {}
    asked = {}
    fifo = []
    cur = None
    prev = {}
    dom = [ord(c) for c in sess.domain]
    for e in w.trace:
        ev = e["ev"]
        if ev == "Deliver" and e.get("to") == "S":
            fifo.append(e)
        elif ev == "Wake" and e["inst"] == "S":
            cur = []
        elif ev == "Recv" and e.get("inst") == "S":
            d = fifo.pop(0) if fifo else None
            if cur is not None and d is not None:
                cur.append(d)
        elif ev == "Send" and e.get("inst") == "S":
            m = D.parse(e["data"]) if e["data"][:3] != proto.RAW_HDR and len(e["data"]) >= 12 else None
            if m is not None and m.qr and m.qd and not m.errors:
                c = proto.classify_query(m.qd[0][0], sess.domain)
                if c["kind"] == "switchcodec":
                    pl = proto.decode_answer(m)
                    if pl in (b"Base32", b"Base64", b"Base64u", b"Base128"):
                        clicodec[c["uid"]] = bits_name.get(c["bits"], "b32")
                elif c["kind"] == "version":
                    pl = proto.decode_answer(m)
                    if pl and pl[:4] == b"VACK" and len(pl) >= 9:
                        clicodec[pl[8]] = "b32"
        elif ev == "SrvState":
            now = {u["u"]: u for u in e["users"]}
            datas = []
            for d in cur or []:
                m = D.parse(d["data"]) if d["data"][:3] != proto.RAW_HDR and len(d["data"]) >= 12 else None
                if m is None or m.errors or not m.qd or m.qr:
                    continue
                c = proto.classify_query(m.qd[0][0], sess.domain)
                if c["kind"] == "data":
                    datas.append((c, m))
            if len(datas) == 1 and len(evs) < cap:
                c, m = datas[0]
                u = c["uid"]
                a, b = now.get(u), prev.get(u)
                if a and b and a.get("auth") and "indata" in a and a["in"][2] > 0:
                    after = bytes.fromhex(a["indata"])
                    before = bytes.fromhex(b.get("indata", ""))
                    app = None
                    if a["in"][0] == b["in"][0] and a["in"][1] == b["in"][1] + 1 and after[:len(before)] == before and len(after) > len(before):
                        app = after[len(before):]
                    elif a["in"][0] != b["in"][0] and a["in"][1] == c["ufrag"]:
                        app = after
                    if app is not None and (a["in"][0], a["in"][1]) == (c["useq"], c["ufrag"]):
                        name = b".".join(m.qd[0][0])
                        evs.append({"e": "Extract", "dom": dom, "name": list(name), "hdr": 5,
                                    "codec": clicodec.get(u, "b32"), "srv": list(app)})
            prev = now
            cur = None
    res["stats"]["extracts"] = len(evs)
    return evs


ABSTRACT["C08"] = abs_c08


def abs_c10(w, sess, frames, t0, hs_len, res):
    """Msg events for client queries, Ans events pairing every DNS answer of the server with the query it answers
    (same requester address and id, most recent), raw bytes; stratified and capped per run."""
    evs = []
    lastq = {}
    seenkinds = {}
    nmsg = nans = 0
    for e in w.trace:
        if e["ev"] == "Deliver" and e.get("to") == "S" and e["dst"][1] == 53:
            d = e["data"]
            if d[:3] != proto.RAW_HDR and len(d) >= 2:
                lastq[(e["src"], d[0] << 8 | d[1])] = d
        elif e["ev"] == "Send" and e["inst"] == "S" and e["dst"][1] != 5353:
            d = e["data"]
            if d[:3] == proto.RAW_HDR or len(d) < 2:
                continue
            q = lastq.get((e["dst"], d[0] << 8 | d[1]))
            key = (len(d) // 64, d[3:8])
            seenkinds[key] = seenkinds.get(key, 0) + 1
            # the sample is stratified and capped - except that a pair whose question sections differ in any byte is
            # never left out
            suspicious = q is not None and D.parse(q).qd[:1] != D.parse(d).qd[:1]
            if (seenkinds[key] > 3 or nans >= 60) and not suspicious:
                continue
            nans += 1
            if q is None:
                evs.append({"e": "Ans", "q": [], "a": list(d)})
            else:
                evs.append({"e": "Ans", "q": list(q), "a": list(d)})
        elif e["ev"] == "Send" and e["inst"].startswith("C"):
            d = e["data"]
            if d[:3] == proto.RAW_HDR:
                continue
            key = ("c", len(d) // 32)
            seenkinds[key] = seenkinds.get(key, 0) + 1
            if seenkinds[key] > 2 or nmsg >= 30:
                continue
            nmsg += 1
            evs.append({"e": "Msg", "who": "C", "b": list(d)})
    res["stats"]["c10_events"] = len(evs)
    return evs


ABSTRACT["C10"] = abs_c10


def abs_c11(w, sess, frames, t0, hs_len, res):
    spec = res["spec"]
    evs = [{"e": "Handshake", "ok": bool(res["stats"].get("handshake")), "premise": bool(spec.get("premise"))}]
    us = res["stats"].get("users") or []
    res["stats"]["negotiated"] = {k: us[0].get(k) for k in ("enc", "downenc", "fragsize", "lazy")} if us else None
    qt = None
    for e in w.trace:
        if e["ev"] == "Send" and e["inst"] == "C0" and e["data"][:3] != proto.RAW_HDR:
            m = D.parse(e["data"])
            if m.qd:
                qt = m.qd[0][1]
    res["stats"]["qtype_used"] = D.TYPENAMES.get(qt, qt)
    return evs


ABSTRACT["C11"] = abs_c11
