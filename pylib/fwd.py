"""Scripted requesters and a scripted local resolver around the real iodined started with -b (C20)."""
import random
import struct

import dnsmsg as D
import script
import world as W

BIND_PORT = 5353
RESOLVER = ("127.0.0.1", BIND_PORT)
QT = [D.T_A, D.T_TXT, D.T_MX, D.T_NS, D.T_CNAME, 28]


def long_name(rng, total):
    """labels of a name with `total` characters in dotted form (labels of 1..63), not under the tunnel domain"""
    labels = []
    left = total - 4            # ".org"
    while left > 0:
        ln = min(left, rng.choice([63, 63, 40, 11, 1]))
        if left - ln == 1:
            ln = ln - 1 if ln > 1 else ln + 1
        ln = min(ln, left)
        labels.append(bytes(rng.choice(b"abcdefghijklmnopqrstuvwxyz0123456789-") for _ in range(ln)))
        left -= ln + 1
    return labels + [b"org"]


# the specification's small id domain is mapped onto 16-bit DNS ids of every shape: bytes >= 0x80 in either half, 0xff
# halves, pairs that differ only in the high byte (0 stays 0: "no id")
WIRE_IDS = [0, 0x12b4, 0xffb4, 0x8539, 0x0080, 0xff80, 0x7fff, 0xffff, 0x20c7, 0xffc7, 0x0539, 0x8000, 0x00ff, 0xff00,
            0x1234, 0x80ff, 0xfe7f, 0x7f80, 0x0001, 0xa5a5, 0x5a5a, 0xfffe, 0x0100, 0x8081]


def wire_id(k, seed):
    if k == 0:
        return 0
    if seed % 4 == 0:
        return k            # every fourth history keeps the small numbers
    return WIRE_IDS[1 + (k - 1 + seed) % (len(WIRE_IDS) - 1)]


def execute(spec):
    import runs
    rng = random.Random(spec["seed"])
    res = {"spec": spec, "label": spec.get("label"), "c20": [], "stats": {}, "san": None, "hang": False, "error": None}
    w = None
    try:
        w = W.World(runs.bdir(), seed=spec["seed"], tag="fw%d" % spec["seed"])
        w.spawn("S", "S", ["-f", "-4", "-P", "pw", "-b", str(BIND_PORT), "10.0.0.1/24", script.DOMAIN])
        w.run_until(t=w.now + 1000)
        got = []        # datagrams that reached the resolver
        back = []       # datagrams that reached requesters
        w.endpoints[RESOLVER] = lambda wd, serial, src, dst, data: got.append((src, data))
        # requesters' source ports: ordinary ones, and (in two thirds of the histories) a requester that happens to send
        # from the very port number given with -b, or from port 53 (a resolver with a fixed query-source port)
        ports = {k: script.src_addr(k)[1] for k in range(1, 6)}
        if spec["seed"] % 3 == 1:
            ports[2] = BIND_PORT
        elif spec["seed"] % 3 == 2:
            ports[1] = 53
            ports[3] = BIND_PORT

        def addr(k):
            return (script.src_addr(k)[0], ports[k])
        for k in range(1, 6):
            w.endpoints[addr(k)] = lambda wd, serial, src, dst, data: back.append((dst, data))
        bind_sock = [s for s in w.socks.values() if s.kind == "udp" and s.inst.name == "S" and s.port != 53]
        bind_addr = ("127.0.0.1", bind_sock[0].port) if bind_sock else None
        n = 0
        for m in spec["hist"]:
            del got[:]
            del back[:]
            t0 = len(w.trace)
            if m["a"] == "F":
                n += 1
                labels = [b"host%d" % (n % 7), rng.choice([b"other", b"example"]), b"org"]
                shape = (n + spec["seed"]) % 4
                if shape == 1:          # names of every length up to the longest a DNS name can be (253 characters)
                    labels = long_name(rng, rng.choice([253, 252, 251, 250, 247, 244, 243, 242, 240, 230, 200, 128, 64]))
                elif shape == 2:
                    labels = long_name(rng, rng.randrange(6, 254))
                qt = QT[n % len(QT)]
                q = D.build_query(wire_id(m["id"], spec["seed"]), labels, qt, edns=bool(n % 2))
                w.send(addr(m["src"]), (W.SERVER_IP, 53), q, "requester")
                w.run_until(t=w.now + 3000)
                outs = []
                for src, data in got:
                    mm = D.parse(data)
                    same = bool(mm.qd) and mm.qd[0][0] == labels and mm.qd[0][1] == qt and not mm.qr
                    outs.append((m["id"] if mm.id == wire_id(m["id"], spec["seed"]) else 70000 + mm.id, same))
                    bind_addr = src
                stray = sum(1 for e in w.trace[t0:] if e["ev"] == "Send" and e["inst"] == "S" and e["dst"] != RESOLVER)
                res["c20"].append({"e": "Fwd", "src": m["src"], "id": m["id"], "nout": len(outs) + stray,
                                   "outid": outs[0][0] if outs else -1, "sameq": outs[0][1] if outs else False})
            else:
                if bind_addr is None:
                    continue
                # reply sizes: small ones, the classic 512-byte limit +-1, EDNS0 sizes (the forwarded query advertises 4096)
                blen = rng.randrange(0, 40) if n % 3 else rng.choice([488, 499, 500, 501, 511, 512, 513, 600, 1220, 1232,
                                                                      1440, 4000, 4083, 4084])
                body = bytes(rng.getrandbits(8) for _ in range(blen))
                rep = struct.pack(">HHHHHH", wire_id(m["id"], spec["seed"]), 0x8180, 0, 0, 0, 0) + body
                w.send(RESOLVER, bind_addr, rep, "resolver")
                w.run_until(t=w.now + 3000)
                sends = [e for e in w.trace[t0:] if e["ev"] == "Send" and e["inst"] == "S"]
                to = 0
                same = False
                if sends:
                    ip = sends[0]["dst"][0]
                    to = int(ip.split(".")[3]) if ip.startswith("10.9.2.") and \
                        sends[0]["dst"][1] == ports.get(int(ip.split(".")[3]), -1) else 0
                    same = sends[0]["data"] == rep
                res["c20"].append({"e": "Reply", "id": m["id"], "nsent": len(sends), "to": to, "same": same})
        res["stats"]["steps"] = len(res["c20"])
        res["san"] = runs.sanitizer_report(w.k.stderr_text(20000))
        for e in w.trace:
            if e["ev"] == "Exit":
                res["error"] = "server exited: %s" % e
    except W.KernelDied as ex:
        res["san"] = runs.sanitizer_report(ex.stderr_tail) or ("kernel died: %s" % ex)
    except W.KernelHang as ex:
        res["hang"] = True
        res["error"] = str(ex)
    finally:
        if w is not None:
            w.close()
    return res
