"""Discrete-event simulated world around the simk kernel.

The real iodined / iodine main()s run inside `simk`; this module owns virtual
time, the UDP network (with a pluggable policy for loss / duplication / delay /
reordering / rewriting), the tun devices and scripted endpoints, and records
every boundary crossing as a trace event (list of dicts, execution order).

Determinism: everything is a function of (scenario, policy, seed).
"""
import heapq
import json
import os
import select
import subprocess
import sys
import tempfile

HERE = os.path.dirname(os.path.abspath(__file__))
VERIF = os.path.dirname(HERE)

SERVER_IP = "10.9.0.1"
SERVER_IP6 = "fd00::1"
STEP_TIMEOUT = float(os.environ.get("VERIF_STEP_TIMEOUT", "20"))


class KernelDied(Exception):
    def __init__(self, msg, stderr_tail=""):
        Exception.__init__(self, msg)
        self.stderr_tail = stderr_tail


class KernelHang(Exception):
    pass


def hx(b):
    return b.hex() if b else "-"


def unhx(s):
    return b"" if s == "-" else bytes.fromhex(s)


FLAVOURS = {None: "", "": "", "uchar": "-funsigned-char"}


def build_dir(flavour=None):
    env = dict(os.environ, VERIF_CFLAGS_EXTRA=FLAVOURS.get(flavour, flavour or ""))
    out = subprocess.run([sys.executable, os.path.join(VERIF, "tools", "build.py")],
                         stdout=subprocess.PIPE, text=True, env=env)
    if out.returncode != 0:
        raise SystemExit(3)
    return out.stdout.strip().splitlines()[-1]


class Kernel:
    def __init__(self, bdir, tag="k"):
        self.errf = tempfile.NamedTemporaryFile(prefix="simk-%s-" % tag, suffix=".err",
                                                dir=os.environ.get("TMPDIR", "/var/tmp"), delete=False)
        env = dict(os.environ)
        env["ASAN_OPTIONS"] = "detect_leaks=0:abort_on_error=0:exitcode=77:allocator_may_return_null=1:detect_stack_use_after_return=0"
        env["UBSAN_OPTIONS"] = "print_stacktrace=1:halt_on_error=1:exitcode=78"
        self.p = subprocess.Popen([os.path.join(bdir, "simk")], stdin=subprocess.PIPE,
                                  stdout=subprocess.PIPE, stderr=self.errf, env=env, bufsize=0)
        self.buf = b""
        self.dead = False

    def stderr_text(self, tail=6000):
        try:
            self.errf.flush()
            with open(self.errf.name, "rb") as f:
                d = f.read()
            return d[-tail:].decode("latin-1")
        except OSError:
            return ""

    def _cpu(self):
        """CPU seconds the kernel process has used so far (user + system)"""
        try:
            with open("/proc/%d/stat" % self.p.pid) as f:
                fld = f.read().rsplit(")", 1)[1].split()
            return (int(fld[11]) + int(fld[12])) / os.sysconf("SC_CLK_TCK")
        except (OSError, IndexError, ValueError):
            return None

    def _readline(self):
        # "bounded time" is judged on the CPU time the step consumes, not on wall time: a machine shared with other
        # checks may starve the process for a long time without the program looping
        waited = 0.0
        while b"\n" not in self.buf:
            r, _, _ = select.select([self.p.stdout], [], [], STEP_TIMEOUT)
            if not r:
                waited += STEP_TIMEOUT
                cpu = self._cpu()
                cpu0 = getattr(self, "cpu_at_cmd", None)
                used = (cpu - cpu0) if (cpu is not None and cpu0 is not None) else waited
                if used >= STEP_TIMEOUT * 0.75 or waited >= 30 * STEP_TIMEOUT:
                    self.kill()
                    raise KernelHang("no answer from kernel after %.0fs of CPU time (%.0fs wall)" % (used, waited))
                continue
            chunk = os.read(self.p.stdout.fileno(), 1 << 16)
            if not chunk:
                self.dead = True
                self.p.wait()
                raise KernelDied("kernel exited with status %s" % self.p.returncode, self.stderr_text())
            self.buf += chunk
        line, self.buf = self.buf.split(b"\n", 1)
        return line.decode("latin-1")

    def cmd(self, line):
        if self.dead:
            raise KernelDied("kernel already dead", self.stderr_text())
        self.cpu_at_cmd = self._cpu()
        try:
            self.p.stdin.write((line + "\n").encode("latin-1"))
        except BrokenPipeError:
            self.dead = True
            self.p.wait()
            raise KernelDied("kernel exited with status %s" % self.p.returncode, self.stderr_text())
        evs = []
        while True:
            l = self._readline()
            if l == ".":
                return evs
            evs.append(l.split(" "))

    def kill(self):
        self.dead = True
        try:
            self.p.kill()
            self.p.wait()
        except OSError:
            pass

    def close(self):
        if not self.dead:
            try:
                self.p.stdin.write(b"quit\n")
                self.p.wait(timeout=5)
            except Exception:
                self.kill()
            self.dead = True
        try:
            os.unlink(self.errf.name)
        except OSError:
            pass


class Dgram:
    __slots__ = ("serial", "src", "dst", "data", "t", "frm", "dir", "orig", "tag")

    def __init__(self, serial, src, dst, data, t, frm):
        self.serial = serial
        self.src = src          # (ip, port)
        self.dst = dst
        self.data = data
        self.t = t
        self.frm = frm          # instance name or endpoint tag
        self.dir = None
        self.orig = None        # serial of the datagram this one duplicates
        self.tag = None


class NetPolicy:
    """Default: deliver every datagram once after `latency` microseconds."""

    def __init__(self, latency=1000):
        self.latency = latency

    def route(self, world, dg):
        """-> list of (delay_us, data, src, dst)"""
        return [(self.latency, dg.data, dg.src, dg.dst)]


class Inst:
    def __init__(self, name, kind, ip):
        self.name = name
        self.kind = kind
        self.ip = ip
        self.state = "run"      # sel | sleep | dead
        self.deadline = None
        self.selfds = ()
        self.seltv = None
        self.tunfd = None
        self.socks = []
        self.exit_code = None


class Sock:
    def __init__(self, fd, inst, kind):
        self.fd = fd
        self.inst = inst
        self.kind = kind        # udp | tun
        self.ip = None
        self.port = None
        self.buffered = 0
        self.closed = False


class World:
    def __init__(self, bdir, seed=1, policy=None, tag="w", record_bytes=True):
        self.k = Kernel(bdir, tag)
        self.seed = seed
        self.policy = policy or NetPolicy()
        self.now = 0
        self.insts = {}
        self.order = []
        self.socks = {}
        self.evq = []
        self._seq = 0
        self.serial = 0
        self.trace = []
        self.endpoints = {}     # (ip, port) -> callback(world, dg)
        self.next_port = 40000
        self.dump_users = False
        self.dump_clients = False   # record the tunnel state of a client after each of its steps (CliState events)
        self.last_users = None
        self.one_fd = False
        self.step_hook = None   # callback(world, inst_name, events) after every step
        self.dgrams = {}
        self.record_bytes = record_bytes
        self.steps = 0
        self.tunq = {}

    # ---- low level
    def ev(self, **kw):
        kw["t"] = self.now
        self.trace.append(kw)
        return kw

    def push(self, t, kind, payload):
        self._seq += 1
        heapq.heappush(self.evq, (t, self._seq, kind, payload))

    def spawn(self, name, kind, args, ip=None, env=None):
        """kind: 'S' or 'C0'..'C2'; args: list of str/bytes (argv[1:]); env: {NAME: value} set while the program starts"""
        if ip is None:
            ip = SERVER_IP if kind == "S" else "10.9.1.%d" % (int(kind[1]) + 1)
        inst = Inst(name, kind, ip)
        self.insts[name] = inst
        self.order.append(name)
        argv = [b"iodined" if kind == "S" else b"iodine"]
        for a in args:
            argv.append(a if isinstance(a, bytes) else a.encode("latin-1"))
        self.k.cmd("time %d" % self.now)
        for nm, val in (env or {}).items():
            self.k.cmd("env %s %s" % (nm, hx(val if isinstance(val, bytes) else val.encode("latin-1"))))
        evs = self.k.cmd("spawn %s %s %d %s" % (name, kind, self.seed * 16 + len(self.order),
                                                 " ".join(hx(a) for a in argv)))
        for nm in (env or {}):
            self.k.cmd("unenv %s" % nm)
        self.ev(ev="Spawn", inst=name, args=[a.decode("latin-1") for a in argv[1:]])
        self._process(inst, evs)
        return inst

    def _process(self, inst, evs):
        self.steps += 1
        for e in evs:
            k = e[0]
            if k == "send":
                fd = int(e[2])
                s = self.socks.get(fd)
                data = unhx(e[5])
                if s and s.port is None:
                    # unbound socket: implicit bind on first send
                    s.ip, s.port = inst.ip, self._ephemeral()
                if s is not None and s.ip is not None and ":" in s.ip:
                    src = (SERVER_IP6 if s.ip == "::" else s.ip, s.port)
                else:
                    src = (inst.ip if (s is None or s.ip in (None, "0.0.0.0")) else s.ip, s.port if s else 0)
                self.send(src, (e[3], int(e[4])), data, inst.name)
            elif k == "tunw":
                self.ev(ev="TunWrite", inst=inst.name, data=unhx(e[3]))
            elif k == "tunr":
                s = self.socks.get(int(e[2]))
                if s:
                    s.buffered -= 1
                    fr = self.tunq[s.fd].pop(0) if self.tunq.get(s.fd) else None
                    self.ev(ev="TunRead", inst=inst.name, data=fr, n=int(e[3]))
            elif k == "rcv":
                s = self.socks.get(int(e[2]))
                if s:
                    s.buffered -= 1
                self.ev(ev="Recv", inst=inst.name, n=int(e[3]))
            elif k == "sys":
                self.ev(ev="System", inst=inst.name, cmd=unhx(e[2]).decode("latin-1"))
            elif k == "sock":
                s = Sock(int(e[2]), inst, "udp")
                self.socks[s.fd] = s
                inst.socks.append(s)
            elif k == "bind":
                s = self.socks[int(e[2])]
                s.ip = e[3]
                s.port = int(e[4]) or self._ephemeral()
            elif k == "tunopen":
                s = Sock(int(e[2]), inst, "tun")
                self.socks[s.fd] = s
                inst.tunfd = s.fd
            elif k == "tunname":
                pass
            elif k == "close":
                s = self.socks.get(int(e[2]))
                if s:
                    s.closed = True
            elif k == "sel":
                inst.state = "sel"
                us = int(e[2])
                inst.seltv = us
                inst.deadline = None if us < 0 else self.now + us
                inst.selfds = tuple(int(x) for x in e[3:])
                self.ev(ev="Select", inst=inst.name, tv=us, tun=(inst.tunfd in inst.selfds))
            elif k == "sleep":
                inst.state = "sleep"
                inst.deadline = self.now + int(e[2]) * 1000000
                self.ev(ev="Sleep", inst=inst.name, sec=int(e[2]))
            elif k == "exit":
                inst.state = "dead"
                inst.exit_code = int(e[2])
                self.ev(ev="Exit", inst=inst.name, code=int(e[2]), how=e[3])
            elif k in ("emptyrecv", "emptyread"):
                self.ev(ev="EmptyRead", inst=inst.name)
            elif k == "error":
                raise RuntimeError("kernel error: %r" % (e,))
        if self.dump_users and inst.kind == "S":
            self.users_event()
        if self.dump_clients and inst.kind != "S" and inst.state != "dead":
            for e in self.k.cmd("cstate %d" % int(inst.kind[1])):
                if e[0] == "cstate":
                    self.ev(ev="CliState", inst=inst.name, st=json.loads(" ".join(e[1:])))
        if self.step_hook:
            self.step_hook(self, inst.name, evs)

    def _ephemeral(self):
        self.next_port += 1
        return self.next_port

    def users(self):
        evs = self.k.cmd("users")
        return [json.loads(" ".join(e[1:])) for e in evs if e[0] == "user"]

    def users_event(self):
        us = self.users()
        self.last_users = us
        self.ev(ev="SrvState", users=us)
        return us

    # ---- network
    def send(self, src, dst, data, frm):
        self.serial += 1
        dg = Dgram(self.serial, src, dst, data, self.now, frm)
        self.dgrams[dg.serial] = dg
        self.ev(ev="Send", inst=frm, dg=dg.serial, src=src, dst=dst, data=data)
        for r in self.policy.route(self, dg):
            delay, d2, s2, dst2 = r[:4]
            self.push(self.now + delay, "arrive", (dg.serial, d2, s2, dst2, r[4] if len(r) > 4 else None))
        return dg

    def find_sock(self, dst):
        ip, port = dst
        for s in self.socks.values():
            if s.kind != "udp" or s.closed or s.port != port:
                continue
            if ":" in ip:
                if s.ip is not None and ":" in s.ip and (s.ip == ip or (s.ip == "::" and s.inst.kind == "S" and ip == SERVER_IP6)):
                    return s
                continue
            if s.ip is not None and ":" in s.ip:
                continue
            if s.ip == ip or (s.ip in ("0.0.0.0", None) and s.inst.ip == ip) or \
               (ip == "127.0.0.1" and s.inst.kind == "S"):
                return s
        return None

    def _arrive(self, serial, data, src, dst, tag=None):
        if dst in self.endpoints:
            self.ev(ev="Deliver", dg=serial, to="endpoint", dst=dst, data=data, src=src, tag=tag)
            self.endpoints[dst](self, serial, src, dst, data)
            return
        s = self.find_sock(dst)
        if s is None or s.inst.state == "dead":
            self.ev(ev="Undeliverable", dg=serial, dst=dst)
            return
        self.k.cmd("dg %d %s %d %s %s" % (s.fd, src[0], src[1], dst[0], hx(data)))
        s.buffered += 1
        self.ev(ev="Deliver", dg=serial, to=s.inst.name, dst=dst, data=data, src=src, tag=tag)

    def inject_dgram(self, src, dst, data, delay=0, tag="script"):
        """A scripted endpoint sends a datagram (goes through the policy like any other)."""
        return self.send(src, dst, data, tag)

    def tun_inject(self, name, frame, at=None):
        self.push(self.now if at is None else at, "tun", (name, frame))

    # ---- scheduling
    def _ready(self, inst):
        if inst.state != "sel":
            return []
        r = [fd for fd in inst.selfds if fd in self.socks and self.socks[fd].buffered > 0]
        if self.one_fd and r:
            r = r[:1]
        return r

    def _wake(self, inst, fds):
        # a program that returns to select() again and again at the same instant without taking anything off its
        # readable descriptors spins: in real time it burns a CPU and does nothing else (livelock)
        key = (inst.name, self.now, tuple(fds))
        if fds and getattr(self, "_spin_key", None) == key:
            self._spin_n += 1
            if self._spin_n > 3000:
                raise KernelHang("livelock: %s woke %d times at t=%d us with fds %s readable and never read them"
                                 % (inst.name, self._spin_n, self.now, list(fds)))
        else:
            self._spin_key, self._spin_n = key, 0
        self.k.cmd("time %d" % self.now)
        arg = ",".join(str(f) for f in fds) if fds else "-"
        self.ev(ev="Wake", inst=inst.name, fds=list(fds), timeout=not fds)
        inst.state = "run"
        evs = self.k.cmd("wake %s %s" % (inst.name, arg))
        self._process(inst, evs)

    def step(self, limit=None):
        """Execute one scheduling step.  Returns False when nothing can happen before `limit`."""
        for name in self.order:
            inst = self.insts[name]
            r = self._ready(inst)
            if r:
                self._wake(inst, r)
                return True
        # next timed thing
        tnext = None
        who = None
        if self.evq:
            tnext = self.evq[0][0]
        for name in self.order:
            inst = self.insts[name]
            if inst.state in ("sel", "sleep") and inst.deadline is not None:
                if tnext is None or inst.deadline < tnext:
                    tnext = inst.deadline
                    who = inst
        if tnext is None or (limit is not None and tnext > limit):
            if limit is not None:
                self.now = max(self.now, limit)
            return False
        self.now = max(self.now, tnext)
        if who is not None:
            self._wake(who, [])
            return True
        t, _, kind, payload = heapq.heappop(self.evq)
        if kind == "arrive":
            self._arrive(*payload)
        elif kind == "tun":
            name, frame = payload
            inst = self.insts[name]
            if inst.state != "dead" and inst.tunfd is not None:
                self.k.cmd("tq %d %s" % (inst.tunfd, hx(frame)))
                self.socks[inst.tunfd].buffered += 1
                self.tunq.setdefault(inst.tunfd, []).append(frame)
                self.ev(ev="TunOffer", inst=name, data=frame)
        elif kind == "call":
            payload(self)
        return True

    def run_until(self, t=None, pred=None, max_steps=200000):
        n = 0
        while n < max_steps:
            if pred and pred(self):
                return True
            if not self.step(limit=t):
                return pred(self) if pred else True
            n += 1
        raise KernelHang("no end: %d scheduling steps without reaching the target time" % max_steps)

    def call_at(self, t, fn):
        self.push(t, "call", fn)

    def close(self):
        self.k.close()
