"""Layer A binding of the data plane, client half (spec/TraceTunnelCli.tla).

One event per iteration of the real client's tunnel loop (client_tunnel) after the handshake: what it handled (select
timeout, a packet read from its tun device, an answer datagram), the queries it emitted, what it wrote to its tun
device, and the projection of its tunnel state afterwards (file-scope statics of client.c, read by the simulation
kernel).  Queries are numbered in emission order (spec id = position; the last three handshake queries are 1, 2, 3).
"""
import zlib

import dnsmsg as D
import proto
import codec as CD

UNKNOWN = 99999


def _proj(c):
    return {"oseq": c["out"][0], "ofrag": c["out"][1], "olen": c["out"][2], "ooff": c["out"][3], "osent": c["out"][4],
            "iseq": c["in"][0], "ifrag": c["in"][1], "ilen": c["in"][2], "resent": c["resent"],
            "ps": 1 if c["ps"] else 0}


def _cands(body, images):
    cands = []
    for idx, img in images.items():
        off = img.find(body)
        while off >= 0:
            cands.append((idx, off))
            off = img.find(body, off + 1)
    return cands


def _locate(body, images, want_pk=None, want_off=None):
    """(packet, offset) of a payload slice inside the compressed images.  Tiny slices occur in several places: prefer
    the packet the neighbouring fragments of the same sequence number belong to, and the offset that continues the
    reassembly; (pk, UNKNOWN) if the offset stays ambiguous, (0, 0) if the bytes are in no image."""
    if not body:
        return 0, 0
    cands = _cands(body, images)
    if not cands:
        return 0, 0
    if len(cands) == 1:
        return cands[0]
    if want_pk is not None and any(c[0] == want_pk for c in cands):
        cands = [c for c in cands if c[0] == want_pk]
    if want_off is not None and any(c[1] == want_off for c in cands):
        cands = [c for c in cands if c[1] == want_off]
    if len({c[0] for c in cands}) > 1:
        return 0, UNKNOWN
    if len(cands) == 1:
        return cands[0]
    return cands[0][0], UNKNOWN


def run_packets(bodies, images, window=60):
    """bodies: [(seq, body)] in arrival order.  The packet each slice belongs to: its own candidates if unique, else
    the packet of the nearest slice with the same sequence number (late duplicates of other sequence numbers may be
    interleaved) whose packet is known and contains this slice too; None if that does not settle it."""
    cands = [({x[0] for x in _cands(b, images)} if b else set()) for _, b in bodies]
    out = [list(c)[0] if len(c) == 1 else None for c in cands]
    for k, (sq, b) in enumerate(bodies):
        if out[k] is not None or not cands[k]:
            continue
        for d in range(1, window):
            for j in (k + d, k - d):
                if 0 <= j < len(bodies) and bodies[j][0] == sq and len(cands[j]) == 1 and list(cands[j])[0] in cands[k]:
                    out[k] = list(cands[j])[0]
                    break
            if out[k] is not None:
                break
    return out


def abstract(w, sess, frames, t0, hs_len, res, inst="C0"):
    users = [x for x in (res["stats"].get("users") or []) if x.get("auth")]
    if len(users) != 1 or users[0].get("conn") == 0 or not res["stats"].get("handshake"):
        return None
    enc = CD.NAMES.get(users[0].get("enc"), "b32")
    uid = users[0]["u"]
    uidchars = ("%x" % uid).encode() + ("%X" % uid).encode()
    up, dn, upimg, dnimg = {}, {}, {}, {}
    for e in w.trace:
        if e["ev"] == "TunOffer":
            side, img = (up, upimg) if e["inst"] != "S" else (dn, dnimg)
            if e["data"] not in side:
                side[e["data"]] = len(side) + 1
                img[side[e["data"]]] = zlib.compress(e["data"], 9)
    # pass 1: which packet the fragments of each downstream sequence-number run belong to
    seqbod = []
    for e in w.trace[hs_len:]:
        if e["ev"] == "Deliver" and e.get("to") == inst:
            data = e["data"]
            m = D.parse(data) if len(data) >= 12 else None
            pl = proto.decode_answer(m) if (m is not None and m.qr and m.qd and not m.errors and m.rcode == 0) else None
            if pl is not None and len(pl) > 2 and pl[:5] != b"BADIP":
                seqbod.append((proto.parse_data_header(pl)["dseq"], pl[2:], id(e), data))
    runpk = {}
    for (sq, body, dg, data), pk in zip(seqbod, run_packets([(a, b) for a, b, _, _ in seqbod], dnimg)):
        runpk[(dg, data)] = pk
    fifo = []
    evs = []
    cur = None
    state0 = None
    started = False
    idmap = {}
    nsent = 3
    capup = 1
    lazy = None
    lastup = None
    for i, e in enumerate(w.trace):
        ev = e["ev"]
        if ev == "Deliver" and e.get("to") == inst:
            fifo.append(e)
        elif ev == "Wake" and e["inst"] == inst:
            cur = {"hs": [], "out": [], "tunw": [], "timeout": bool(e.get("timeout"))}
        elif ev == "Exit" and e.get("inst") == inst:
            break
        elif e.get("inst") == inst and ev == "Recv":
            d = fifo.pop(0) if fifo else None
            if cur is not None:
                cur["hs"].append(("Recv", d))
        elif e.get("inst") == inst and cur is not None and ev == "TunRead":
            cur["hs"].append(("Tun", e["data"]))
        elif e.get("inst") == inst and cur is not None and ev == "Send":
            cur["out"].append(e["data"])
        elif e.get("inst") == inst and cur is not None and ev == "TunWrite":
            cur["tunw"].append(e["data"])
        elif ev == "CliState" and e["inst"] == inst:
            c = e["st"]
            if i < hs_len or cur is None:
                state0 = c
                cur = None
                continue
            if not started:
                if state0 is None:
                    return None
                started = True
                lazy = state0["lazy"]
                idmap = {state0["idp2"]: 1, state0["idp"]: 2, state0["id"]: 3}
                evs.append({"e": "Start", "st": _proj(state0)})
            rec = {"e": "Iter", "st": _proj(c), "out": [], "tunw": [dn.get(fr, 0) for fr in cur["tunw"]], "hs": []}
            blank = {"id": 0, "x": 0, "useq": 0, "ufrag": 0, "dseq": 0, "dfrag": 0, "last": 0, "pk": 0, "off": 0, "len": 0,
                     "p": 0}
            if cur["timeout"] and not cur["hs"]:
                rec["hs"].append(dict(blank, k="Timeout"))
            for hk, arg in cur["hs"]:
                if hk == "Tun":
                    rec["hs"].append(dict(blank, k="Tun", p=up.get(arg, 0)))
                    continue
                data = arg["data"] if arg else b""
                m = D.parse(data) if len(data) >= 12 else None
                if m is None or not m.qr or not m.qd:
                    # read_dns_withq() hands back an empty question name: "not data for us"
                    rec["hs"].append(dict(blank, k="Foreign"))
                    continue
                labels = m.qd[0][0]
                first = labels[0][:1] if labels and labels[0] else b""
                if first not in (b"P", b"p") and first not in (uidchars[:1], uidchars[1:2]):
                    rec["hs"].append(dict(blank, k="Foreign"))
                    continue
                pl = proto.decode_answer(m) if not m.errors and m.rcode == 0 else None
                sid = idmap.get(m.id, 0)
                if pl is None or len(pl) < 2:
                    rec["hs"].append(dict(blank, k="Recv", id=sid, x=1))
                    continue
                if pl[:5] == b"BADIP" and len(pl) == 5:
                    rec["hs"].append(dict(blank, k="BadIp"))
                    continue
                h = proto.parse_data_header(pl)
                body = pl[2:]
                cont = state0 is not None and h["dseq"] == state0["in"][0] and state0["in"][2] > 0
                pk, off = _locate(body, dnimg, want_pk=runpk.get((id(arg), arg["data"])),
                                  want_off=state0["in"][2] if cont else 0)
                rec["hs"].append({"k": "Recv", "id": sid, "x": 0, "useq": h["useq"], "ufrag": h["ufrag"], "dseq": h["dseq"],
                                  "dfrag": h["dfrag"], "last": h["last"], "pk": pk if off != UNKNOWN else 0,
                                  "off": off if (pk and off != UNKNOWN) else 0, "len": len(body), "p": 0})
                if off == UNKNOWN:
                    res["stats"]["tcli_unlocated"] = res["stats"].get("tcli_unlocated", 0) + 1
            for data in cur["out"]:
                m = D.parse(data) if data[:3] != proto.RAW_HDR else None
                if m is None or not m.qd or m.qr:
                    rec["out"].append({"kind": "other", "useq": 0, "ufrag": 0, "dseq": 0, "dfrag": 0, "last": 0,
                                       "pk": 0, "off": 0, "len": 0})
                    continue
                nsent += 1
                idmap[m.id] = nsent
                cl = proto.classify_query(m.qd[0][0], sess.domain)
                if cl["kind"] == "ping":
                    rec["out"].append({"kind": "ping", "useq": 0, "ufrag": 0, "dseq": cl["dseq"], "dfrag": cl["dfrag"],
                                       "last": 0, "pk": 0, "off": 0, "len": 0})
                elif cl["kind"] == "data":
                    body = CD.decode(enc, cl["enc"])
                    # a tiny tail slice occurs in many places: prefer the packet / offset the client is sending
                    pk, off = _locate(body, upimg, want_pk=lastup, want_off=c["out"][3])
                    lastup = pk or lastup
                    capup = max(capup, len(body))
                    rec["out"].append({"kind": "data", "useq": cl["useq"], "ufrag": cl["ufrag"], "dseq": cl["dseq"],
                                       "dfrag": cl["dfrag"], "last": cl["last"], "pk": pk, "off": off, "len": len(body)})
                else:
                    rec["out"].append({"kind": "other", "useq": 0, "ufrag": 0, "dseq": 0, "dfrag": 0, "last": 0,
                                       "pk": 0, "off": 0, "len": 0})
            if any(o["kind"] == "other" for o in rec["out"]):
                # the client left the data plane (handshake_lazyoff(): it switches the session to immediate mode after
                # too many unanswered queries) - Tunnel.tla models one fixed mode: the bound prefix ends here
                res["stats"]["tcli_truncated"] = "option query mid-transfer (lazy mode switched off)"
                break
            evs.append(rec)
            state0 = c
            cur = None
    if not started:
        return None
    return {"events": evs, "up": [len(upimg[i + 1]) for i in range(len(upimg))],
            "dn": [len(dnimg[i + 1]) for i in range(len(dnimg))], "capup": capup, "lazy": lazy}
