"""Server-side view of a recorded run: every datagram the server received / emitted,
parsed by the independent parser and classified per the protocol document."""
import zlib

import dnsmsg as D
import proto
import world as W


def addr(a):
    return "%s:%d" % (a[0], a[1])


def qn_str(labels):
    """name as a printable ASCII-safe string (hex for non-printables) usable as a TLA+ string"""
    return ".".join(l.hex() for l in labels)


def server_view(trace, domain, server="S"):
    out = []
    for e in trace:
        ev = e["ev"]
        if ev == "Deliver" and e.get("to") == server:
            data = e["data"]
            if e["dst"][1] != 53:
                # reply from the local resolver on the forwarding socket
                m = D.parse(data)
                out.append({"k": "fwdreply", "id": m.id if len(data) >= 2 else 0, "data": data, "dg": e["dg"], "t": e["t"]})
                continue
            rec = {"k": "recv", "src": addr(e["src"]), "dg": e["dg"], "t": e["t"], "data": data}
            if data[:3] == proto.RAW_HDR and len(data) >= 4:
                rec.update(raw=True, cmd=data[3] >> 4, uid=data[3] & 15)
            else:
                m = D.parse(data)
                rec["raw"] = False
                if len(data) >= 12 and m.qd and not m.qr:
                    labels, qt, _ = m.qd[0]
                    rec.update(dns=True, id=m.id, qn=qn_str(labels), qt=qt, labels=labels,
                               cls=proto.classify_query(labels, domain), errors=m.errors)
                else:
                    rec.update(dns=False, errors=m.errors)
            out.append(rec)
        elif ev == "Send" and e["inst"] == server:
            data = e["data"]
            rec = {"k": "send", "dst": addr(e["dst"]), "dg": e["dg"], "t": e["t"], "data": data}
            if data[:3] == proto.RAW_HDR and len(data) >= 4:
                rec.update(raw=True, cmd=data[3] >> 4, uid=data[3] & 15, payload=data[4:])
            else:
                m = D.parse(data)
                rec["raw"] = False
                rec["errors"] = m.errors
                if m.qd:
                    labels, qt, _ = m.qd[0]
                    rec.update(dns=True, id=m.id, qn=qn_str(labels), qt=qt, labels=labels, qr=m.qr,
                               cls=proto.classify_query(labels, domain), msg=m)
                    if m.qr and not m.errors:
                        pl = proto.decode_answer(m)
                        rec["payload"] = pl
                else:
                    rec.update(dns=False)
            out.append(rec)
        elif ev == "Select" and e["inst"] == server:
            out.append({"k": "stepend", "t": e["t"], "tv": e["tv"], "tun": e["tun"]})
        elif ev == "SrvState":
            out.append({"k": "state", "users": e["users"], "t": e["t"]})
        elif ev == "TunWrite" and e["inst"] == server:
            out.append({"k": "tunw", "data": e["data"], "t": e["t"]})
        elif ev == "TunRead" and e["inst"] == server:
            out.append({"k": "tunr", "data": e["data"], "t": e["t"]})
    return out


def images(frames):
    """compressed image -> packet id for every injected frame"""
    return {zlib.compress(fr, 9): pid for fr, pid in frames.items()}
