"""Common machinery of the checks: TLC runs, trace validation, evidence, findings."""
import atexit
import concurrent.futures
import json
import os
import re
import shutil
import subprocess
import sys
import tempfile
import time

HERE = os.path.dirname(os.path.abspath(__file__))
VERIF = os.path.dirname(HERE)
SPEC = os.path.join(VERIF, "spec")
EVID = os.environ.get("VERIF_EVID") or os.path.join(VERIF, "evidence")
REPLAY = os.path.join(EVID, "replay")
NCPU = os.cpu_count() or 4

_scratch = None


def scratch():
    global _scratch
    if _scratch is None:
        base = os.environ.get("TMPDIR", "/var/tmp")
        _scratch = tempfile.mkdtemp(prefix="verif-%d-" % os.getpid(), dir=base)
        atexit.register(lambda: shutil.rmtree(_scratch, ignore_errors=True))
    return _scratch


def seed():
    try:
        return int(os.environ.get("VERIF_SEED", "1"))
    except ValueError:
        return 1


class TlcResult:
    def __init__(self):
        self.rc = None
        self.out = ""
        self.generated = 0
        self.distinct = 0
        self.depth = 0
        self.wall = 0.0
        self.violation = None     # text of invariant / property violated
        self.ok = False
        self.broken = None        # reason if TLC itself failed
        self.coverage = {}
        self.prints = []

    def summary(self):
        return {"rc": self.rc, "generated": self.generated, "distinct": self.distinct,
                "depth": self.depth, "wall_s": round(self.wall, 2), "violation": self.violation,
                "broken": self.broken}


_num = re.compile(r"(\d+) states generated, (\d+) distinct states found")
_dep = re.compile(r"The depth of the complete state graph search is (\d+)")
_simn = re.compile(r"The number of states generated: (\d+)")
_cov = re.compile(r"^<(\w+) line \d+, col \d+ to line \d+, col \d+ of module (\w+)>: (\d+):(\d+)", re.M)


TSCALE = 1.5       # every TLC timeout is multiplied by this (thorough tier: 4 - the machine may be shared with other checks)


def tlc(module, cfg=None, workers=None, timeout=900, env=None, simulate=None, depth=None,
        coverage=False, heap=None, extra=(), deadlock=None, tag=None):
    """Run TLC on spec/<module>.tla with spec/<cfg>.  Returns TlcResult."""
    res = TlcResult()
    timeout = int(timeout * TSCALE)
    md = tempfile.mkdtemp(prefix="tlc-%s-" % (tag or module), dir=scratch())
    cfgp = os.path.join(SPEC, cfg or (module + ".cfg"))
    cmd = ["java"]
    if heap:
        cmd += ["-Xmx" + heap]
    cmd += ["-XX:+UseParallelGC", "-Xss64m", "-cp",
            "/opt/veriftools/tla/tla2tools.jar:/opt/veriftools/tla/CommunityModules-deps.jar",
            "tlc2.TLC", "-noGenerateSpecTE", "-metadir", md, "-config", cfgp]
    cmd += ["-workers", str(workers or min(NCPU, 8))]
    if simulate:
        cmd += ["-simulate", "num=%d" % simulate]
        if depth:
            cmd += ["-depth", str(depth)]
    if coverage:
        cmd += ["-coverage", "1"]
    if deadlock is False:
        cmd += ["-deadlock"]
    cmd += list(extra)
    cmd += [os.path.join(SPEC, module + ".tla")]
    e = dict(os.environ)
    if env:
        e.update(env)
    t0 = time.time()
    try:
        p = subprocess.run(cmd, stdout=subprocess.PIPE, stderr=subprocess.STDOUT, text=True,
                           timeout=timeout, env=e, cwd=SPEC)
        res.rc = p.returncode
        res.out = p.stdout
    except subprocess.TimeoutExpired as ex:
        res.rc = -9
        res.out = (ex.stdout or b"").decode("latin-1") if isinstance(ex.stdout, bytes) else (ex.stdout or "")
        res.broken = "timeout after %ds" % timeout
    res.wall = time.time() - t0
    shutil.rmtree(md, ignore_errors=True)
    for m in _num.finditer(res.out):
        res.generated, res.distinct = int(m.group(1)), int(m.group(2))
    m = _dep.search(res.out)
    if m:
        res.depth = int(m.group(1))
    m = _simn.search(res.out)
    if m and not res.generated:
        res.generated = int(m.group(1))
        res.distinct = res.generated
    for m in _cov.finditer(res.out):
        res.coverage[m.group(1)] = (int(m.group(3)), int(m.group(4)))
    res.prints = re.findall(r"^<<\"[A-Z_]+\".*>>$", res.out, re.M)
    if res.rc == 0:
        res.ok = True
    elif res.rc in (12, 13):
        m = re.search(r"Error: (Invariant \S+ is violated|Action property \S+ is violated|"
                      r"Temporal properties were violated|.*is violated.*)", res.out)
        res.violation = m.group(1) if m else "violation (rc %d)" % res.rc
    elif res.rc == 10 and "Postcondition" in res.out:
        res.violation = "postcondition"
    elif res.broken is None:
        res.broken = "TLC rc=%s: %s" % (res.rc, res.out[-1500:])
    return res


def counterexample(res, maxlen=6000):
    i = res.out.find("Error:")
    return res.out[i:i + maxlen] if i >= 0 else res.out[-maxlen:]


# ------------------------------------------------------------------ trace validation

_reached = re.compile(r'<<"TRACE_REACHED", (\d+), (\d+)>>')


def _validate_file(module, cfg, path, timeout, env_extra=None, depthfirst=False):
    env = {"TRACE": path}
    if env_extra:
        env.update(env_extra)
    if depthfirst:
        env["JAVA_TOOL_OPTIONS"] = "-Dtlc2.tool.queue.IStateQueue=StateDeque"
    r = tlc(module, cfg, workers=1, timeout=timeout, env=env, heap="3g", tag="tv")
    m = _reached.search(r.out)
    if not m:
        return None, None, r
    return int(m.group(1)), int(m.group(2)), r


def validate_executions(module, cfg, executions, shards=None, timeout=900, reset={"e": "Reset"},
                        max_rejects=5, env_extra=None, depthfirst=False):
    """executions: list of lists of event dicts.  Every execution is validated by TLC against
    the trace spec `module`; executions are concatenated (separated by Reset events) to
    amortise JVM start-up and sharded over processes.
    Returns dict(validated=n, events=n, rejected=[{index, at, event, reached}], broken=str|None)."""
    shards = shards or min(NCPU, max(1, len(executions) // 4))
    shards = max(1, min(shards, len(executions)))
    groups = [[] for _ in range(shards)]
    for i, ex in enumerate(executions):
        groups[i % shards].append(i)
    out = {"validated": 0, "events": 0, "rejected": [], "broken": None, "tlc_wall_s": 0.0}

    def work(g):
        rejected = []
        validated = 0
        events = 0
        wall = 0.0
        todo = list(g)
        while todo:
            path = os.path.join(scratch(), "trace-%d-%d.ndjson" % (os.getpid(), todo[0]))
            starts = []
            n = 0
            with open(path, "w") as f:
                for idx in todo:
                    starts.append((n + 1, idx))
                    for evn in executions[idx]:
                        f.write(json.dumps(evn, separators=(",", ":")) + "\n")
                        n += 1
                    f.write(json.dumps(reset) + "\n")
                    n += 1
            if n == 0:
                break
            reached, total, r = _validate_file(module, cfg, path, timeout, env_extra, depthfirst)
            wall += r.wall
            os.unlink(path)
            if reached is None:
                try:
                    with open("/var/tmp/verif-last-broken-tlc.txt", "w") as f:
                        f.write(r.out)
                except OSError:
                    pass
                return validated, events, rejected, "trace validation broken: " + (r.broken or r.out[-1200:]), wall
            if reached >= total:
                validated += len(todo)
                events += n
                break
            # line (reached+1) is the first unmatched one: find its execution
            bad_line = reached + 1
            bad_pos = 0
            for j, (st, idx) in enumerate(starts):
                if st <= bad_line:
                    bad_pos = j
            st, idx = starts[bad_pos]
            off = bad_line - st
            exn = executions[idx]
            rejected.append({"index": idx, "at": off,
                             "event": exn[off] if off < len(exn) else reset,
                             "prefix_tail": exn[max(0, off - 3):off]})
            validated += bad_pos
            events += st - 1
            todo = todo[bad_pos + 1:]
            if len(rejected) >= max_rejects:
                break
        return validated, events, rejected, None, wall

    with concurrent.futures.ThreadPoolExecutor(shards) as ex:
        for v, e, rej, broken, wall in ex.map(work, groups):
            out["validated"] += v
            out["events"] += e
            out["rejected"] += rej
            out["tlc_wall_s"] += wall
            if broken and not out["broken"]:
                out["broken"] = broken
    out["rejected"].sort(key=lambda r: r["index"])
    return out


# ------------------------------------------------------------------ findings / evidence

def known_findings():
    p = os.path.join(VERIF, "known_findings.json")
    try:
        with open(p) as f:
            return json.load(f)
    except FileNotFoundError:
        return {"open": [], "fixed": []}


def jsonable(x):
    if isinstance(x, bytes):
        return x.hex()
    if isinstance(x, dict):
        return {str(k): jsonable(v) for k, v in x.items()}
    if isinstance(x, (list, tuple, set)):
        return [jsonable(v) for v in x]
    return x


class Check:
    """One run of one property check: collects coverage, decides exit status, writes evidence."""

    def __init__(self, pid, level, tier):
        global TSCALE
        self.pid = pid
        self.level = level
        self.tier = tier
        TSCALE = 4 if tier == "thorough" else 1.5
        self.t0 = time.time()
        self.cov = {"samples": []}
        self.assumptions = []
        self.violations = []      # dicts(signature, what, bundle)
        self.known_hits = []
        self.broken = []
        self.notes = {}
        try:
            for fn in os.listdir(REPLAY):
                if fn.startswith(pid + "-"):
                    os.unlink(os.path.join(REPLAY, fn))
        except OSError:
            pass

    def sample(self, s, cap=6):
        if len(self.cov["samples"]) < cap:
            self.cov["samples"].append(jsonable(s))

    def add_model(self, name, res):
        """Record a TLC model-checking run (Layer A / function spec)."""
        self.cov["states"] = self.cov.get("states", 0) + res.distinct
        self.cov["transitions"] = self.cov.get("transitions", 0) + res.generated
        self.cov.setdefault("models", []).append(dict(name=name, **res.summary()))
        if res.coverage:
            holes = [a for a, (taken, gen) in res.coverage.items() if taken == 0]
            if holes:
                self.cov.setdefault("coverage_holes", []).extend("%s:%s" % (name, h) for h in holes)
        if res.broken:
            self.broken.append("model %s: %s" % (name, res.broken))
        return res

    def violation(self, signature, what, bundle=None):
        kf = known_findings()
        for o in kf.get("open", []):
            if o.get("property") == self.pid and o.get("signature") == signature:
                if signature not in [k["signature"] for k in self.known_hits]:
                    self.known_hits.append({"signature": signature, "what": o.get("what", what)})
                return False
        os.makedirs(REPLAY, exist_ok=True)
        n = len(self.violations)
        path = os.path.join(REPLAY, "%s-%d.json" % (self.pid, n))
        with open(path, "w") as f:
            json.dump(jsonable({"property": self.pid, "signature": signature, "what": what,
                                "bundle": bundle}), f, indent=1)
        self.violations.append({"signature": signature, "what": what, "replay": path})
        return True

    def finish(self):
        wall = time.time() - self.t0
        ev = {"property_id": self.pid, "tier": self.tier, "seed": seed(), "level": self.level,
              "coverage": jsonable(self.cov), "assumptions": self.assumptions,
              "wall_s": round(wall, 2), "violations": len(self.violations)}
        if self.notes:
            ev["coverage"]["notes"] = jsonable(self.notes)
        if self.known_hits:
            ev["coverage"]["known_findings_hit"] = self.known_hits
        if self.broken:
            ev["coverage"]["broken"] = self.broken
        os.makedirs(EVID, exist_ok=True)
        tmp = os.path.join(EVID, ".%s.json.tmp" % self.pid)
        with open(tmp, "w") as f:
            json.dump(ev, f, indent=1)
        os.replace(tmp, os.path.join(EVID, "%s.json" % self.pid))
        for k in self.known_hits:
            print("KNOWN-FINDING: property=%s %s" % (self.pid, k["what"]))
        for v in self.violations:
            print("VIOLATION property=%s replay=%s" % (self.pid, v["replay"]))
            print("  " + v["what"][:600])
        if self.violations:
            return 1
        if self.broken:
            for b in self.broken:
                sys.stderr.write("CHECK BROKEN (%s): %s\n" % (self.pid, b[:2000]))
            return 2
        print("OK property=%s tier=%s wall=%.1fs %s" % (
            self.pid, self.tier, wall,
            " ".join("%s=%s" % (k, self.cov[k]) for k in
                     ("states", "transitions", "traces_validated_against_impl", "evaluations",
                      "distinct_nontrivial") if k in self.cov)))
        return 0


def parallel(fn, items, procs=None):
    """Run fn(item) in a process pool (fork), preserving order."""
    procs = procs or NCPU
    if procs <= 1 or len(items) <= 1:
        return [fn(i) for i in items]
    with concurrent.futures.ProcessPoolExecutor(procs) as ex:
        return list(ex.map(fn, items, chunksize=max(1, len(items) // (procs * 4))))


def san_signature(text):
    """Stable signature of a sanitizer report: kind + innermost frames inside /repo/src."""
    kind = "unknown"
    m = re.search(r"ERROR: AddressSanitizer: (\S+)", text)
    if m:
        kind = "asan-" + m.group(1)
    else:
        m = re.search(r"runtime error: ([a-z -]+)", text)
        if m:
            kind = "ubsan-" + m.group(1).strip().replace(" ", "-")[:40]
    frames = re.findall(r"(?:in |/)(\w+) /[^\s]*/src/(\w+\.c):\d+", text)
    m2 = re.search(r"(\w+\.c):(\d+):\d+: runtime error", text)
    loc = ("%s" % m2.group(1)) if m2 else ("/".join("%s@%s" % f for f in frames[:2]) if frames else "?")
    return "%s:%s" % (kind, loc)
