/*
 * simk - simulation kernel for the iodine conformance harness.
 *
 * Runs the REAL main() of iodined and of up to NCLI iodine clients inside one
 * process, one pthread per program instance, with every libc boundary they
 * touch redirected (ld --wrap) to a simulated world that is driven from
 * outside over stdin/stdout by pylib/world.py:
 *   - only one thread runs at a time (baton), an instance gives the baton
 *     back only inside select()/sleep()/exit() or when main returns;
 *   - time() is a virtual clock set by the driver;
 *   - sockets, the tun device, system(), rand() are simulated;
 *   - every boundary crossing is reported as one text line.
 *
 * Protocol (driver -> kernel), one command per line; the kernel answers with
 * zero or more event lines followed by a line ".":
 *   spawn <name> <S|C0|C1|C2> <seed> <hexarg>...   start an instance
 *   wake <name> <fd,fd..|->                        resume from select/sleep
 *   dg <fd> <srcip> <srcport> <dstip> <hex|->      queue a datagram on a socket
 *   tq <fd> <hex>                                  queue a packet on a tun fd
 *   time <usec>                                    set the virtual clock
 *   residue <mode> [hex]                           receive-buffer painting
 *   sysrc <n>                                      return value of system()
 *   users                                          dump server session table
 *   cstate <k>                                     dump the tunnel state of client k
 *   quit
 */
#define _GNU_SOURCE
#include <stdio.h>
#include <stdlib.h>
#include <string.h>
#include <stdarg.h>
#include <stdint.h>
#include <errno.h>
#include <pthread.h>
#include <unistd.h>
#include <fcntl.h>
#include <time.h>
#include <getopt.h>
#include <sys/select.h>
#include <sys/socket.h>
#include <sys/ioctl.h>
#include <sys/uio.h>
#include <netinet/in.h>
#include <arpa/inet.h>
#include <net/if.h>
#include <linux/if_tun.h>

#include "common.h"
#include "encoding.h"
#include "user.h"

#define NCLI 3
#define MAXINST (NCLI + 1)
#define FD_BASE 200
#define MAXFD 64
#define EPOCH 1000000L

extern int iodined_main(int, char **);
extern int iodine_main_0(int, char **);
extern int iodine_main_1(int, char **);
extern int iodine_main_2(int, char **);

/* ---------- real functions ---------- */
int __real_select(int, fd_set *, fd_set *, fd_set *, struct timeval *);
ssize_t __real_read(int, void *, size_t);
ssize_t __real_write(int, const void *, size_t);
int __real_close(int);
int __real_open(const char *, int, ...);
int __real_ioctl(int, unsigned long, ...);
int __real_fcntl(int, int, ...);
int __real_socket(int, int, int);
int __real_bind(int, const struct sockaddr *, socklen_t);
int __real_setsockopt(int, int, int, const void *, socklen_t);
ssize_t __real_sendto(int, const void *, size_t, int, const struct sockaddr *, socklen_t);
ssize_t __real_recvfrom(int, void *, size_t, int, struct sockaddr *, socklen_t *);
ssize_t __real_recvmsg(int, struct msghdr *, int);
ssize_t __real_recv(int, void *, size_t, int);
time_t __real_time(time_t *);
unsigned int __real_sleep(unsigned int);
int __real_system(const char *);
void __real_exit(int) __attribute__((noreturn));
int __real_rand(void);
void __real_srand(unsigned);

/* ---------- instances ---------- */
struct dgram {
	struct dgram *next;
	uint32_t srcip, dstip;	/* network order (IPv4) */
	struct in6_addr src6, dst6;	/* IPv6 */
	int v6;
	uint16_t srcport;	/* host order */
	int len;
	unsigned char data[];
};

struct vfd {
	int used;
	int owner;		/* instance index */
	int kind;		/* 1 udp, 2 tun */
	int domain;		/* AF_INET / AF_INET6 for udp */
	struct dgram *head, *tail;
	unsigned char *prev;	/* previous datagram read from this fd (residue mode 4) */
	int prevlen;
};

struct inst {
	int used;
	int dead;
	char name[16];
	int kind;		/* 0 server, 1.. client k */
	pthread_t th;
	int argc;
	char **argv;
	uint64_t rng;
	uint64_t rng0;		/* the driver's seed for this instance */
	int forced[8];		/* values the next rand() calls return (forcerand) */
	int forced_n;
	/* select hand-over */
	int wake_n;
	int wake_fds[8];
	int rc;
};

static struct inst insts[MAXINST];
static struct vfd vfds[MAXFD];
static __thread int cur = -1;	/* instance index of this thread, -1 = kernel */

static pthread_mutex_t mtx = PTHREAD_MUTEX_INITIALIZER;
static pthread_cond_t cnd = PTHREAD_COND_INITIALIZER;
static int turn = -1;		/* -1 kernel, else instance index */

static long long vt_us = 0;	/* virtual time in microseconds */
static int residue_mode = 0;	/* 0 leave, 1 zeros, 2 0xA5, 3 blob then 0x5A, 4 tail of the previous datagram then 0x5A, 5 blob repeated */
static unsigned char *residue_blob;
static int residue_len;
static int system_rc = 0;
static FILE *out;

static void emit(const char *fmt, ...)
{
	va_list ap;
	va_start(ap, fmt);
	vfprintf(out, fmt, ap);
	va_end(ap);
	fputc('\n', out);
}

static void emithex(const unsigned char *p, size_t n)
{
	static const char hx[] = "0123456789abcdef";
	size_t i;
	if (n == 0) {
		fputc('-', out);
		return;
	}
	for (i = 0; i < n; i++) {
		fputc(hx[p[i] >> 4], out);
		fputc(hx[p[i] & 15], out);
	}
}

static int unhex(const char *s, unsigned char **outp)
{
	size_t n = strlen(s);
	size_t i;
	unsigned char *b;
	if (n == 1 && s[0] == '-') {
		*outp = malloc(1);
		return 0;
	}
	b = malloc(n / 2 + 1);
	for (i = 0; i + 1 < n; i += 2) {
		unsigned v;
		sscanf(s + i, "%2x", &v);
		b[i / 2] = v;
	}
	*outp = b;
	return n / 2;
}

static struct vfd *getvfd(int fd)
{
	if (fd < FD_BASE || fd >= FD_BASE + MAXFD)
		return NULL;
	if (!vfds[fd - FD_BASE].used)
		return NULL;
	return &vfds[fd - FD_BASE];
}

static int newvfd(int kind)
{
	int i;
	for (i = 0; i < MAXFD; i++)
		if (!vfds[i].used) {
			memset(&vfds[i], 0, sizeof(vfds[i]));
			vfds[i].used = 1;
			vfds[i].owner = cur;
			vfds[i].kind = kind;
			return FD_BASE + i;
		}
	errno = EMFILE;
	return -1;
}

/* ---------- baton ---------- */
static void yield_to_kernel(void)
{
	int me = cur;
	fflush(out);
	pthread_mutex_lock(&mtx);
	turn = -1;
	pthread_cond_broadcast(&cnd);
	while (turn != me)
		pthread_cond_wait(&cnd, &mtx);
	pthread_mutex_unlock(&mtx);
}

static void run_inst(int k)
{
	pthread_mutex_lock(&mtx);
	turn = k;
	pthread_cond_broadcast(&cnd);
	while (turn != -1)
		pthread_cond_wait(&cnd, &mtx);
	pthread_mutex_unlock(&mtx);
}

static void finish_thread(int code, const char *how) __attribute__((noreturn));
static void finish_thread(int code, const char *how)
{
	emit("exit %s %d %s", insts[cur].name, code, how);
	fflush(out);
	insts[cur].dead = 1;
	insts[cur].rc = code;
	pthread_mutex_lock(&mtx);
	turn = -1;
	pthread_cond_broadcast(&cnd);
	pthread_mutex_unlock(&mtx);
	pthread_exit(NULL);
}

/* A fresh thread stack is all zero pages; a real process's main() runs on a stack the dynamic loader and libc start-up
   code have already used.  Leave non-zero bytes where main()'s frame is going to be, so that a program which relies on
   an uninitialised automatic variable being zero does not get away with it here. */
static __attribute__((noinline)) void paint_stack(unsigned long long seed)
{
	volatile unsigned char junk[192 * 1024];
	size_t i;
	for (i = 0; i < sizeof(junk); i++) {
		seed = seed * 6364136223846793005ULL + 1442695040888963407ULL;
		junk[i] = (unsigned char) ((seed >> 56) | 1);
	}
}

static void *inst_thread(void *arg)
{
	int k = (int)(intptr_t) arg;
	int rc;
	cur = k;
	paint_stack(insts[k].rng0);
	pthread_mutex_lock(&mtx);
	while (turn != k)
		pthread_cond_wait(&cnd, &mtx);
	pthread_mutex_unlock(&mtx);

	optind = 0;	/* glibc: full getopt re-initialisation */
	switch (insts[k].kind) {
	case 0: rc = iodined_main(insts[k].argc, insts[k].argv); break;
	case 1: rc = iodine_main_0(insts[k].argc, insts[k].argv); break;
	case 2: rc = iodine_main_1(insts[k].argc, insts[k].argv); break;
	default: rc = iodine_main_2(insts[k].argc, insts[k].argv); break;
	}
	finish_thread(rc, "return");
	return NULL;
}

/* ---------- wrapped libc ---------- */
void __wrap_exit(int code)
{
	if (cur < 0)
		__real_exit(code);
	finish_thread(code, "exit");
}

void __wrap_err(int eval, const char *fmt, ...)
{
	va_list ap;
	int e = errno;
	va_start(ap, fmt);
	fprintf(stderr, "[%s] err: ", cur >= 0 ? insts[cur].name : "kernel");
	if (fmt) vfprintf(stderr, fmt, ap);
	fprintf(stderr, ": %s\n", strerror(e));
	va_end(ap);
	__wrap_exit(eval);
	for (;;) ;
}

void __wrap_errx(int eval, const char *fmt, ...)
{
	va_list ap;
	va_start(ap, fmt);
	fprintf(stderr, "[%s] errx: ", cur >= 0 ? insts[cur].name : "kernel");
	if (fmt) vfprintf(stderr, fmt, ap);
	fprintf(stderr, "\n");
	va_end(ap);
	__wrap_exit(eval);
	for (;;) ;
}

time_t __wrap_time(time_t *t)
{
	time_t v;
	if (cur < 0)
		return __real_time(t);
	v = EPOCH + vt_us / 1000000;
	if (t) *t = v;
	return v;
}

int __wrap_rand(void)
{
	struct inst *me;
	if (cur < 0)
		return __real_rand();
	me = &insts[cur];
	if (me->forced_n > 0) {
		/* the driver chose the next values (boundary challenges: 0, RAND_MAX, ...) */
		int v = me->forced[0];
		memmove(me->forced, me->forced + 1, (size_t) --me->forced_n * sizeof(int));
		return v;
	}
	me->rng = me->rng * 6364136223846793005ULL + 1442695040888963407ULL;
	return (int)((me->rng >> 33) & 0x7fffffff);
}

void __wrap_srand(unsigned s)
{
	if (cur < 0) {
		__real_srand(s);
		return;
	}
	/* instances: the sequence is a function of the driver's seed for the instance AND of the program's argument, so
	   that re-seeding with the same value restarts the same sequence (as it does with the real srand) */
	insts[cur].rng = (insts[cur].rng0 ^ ((uint64_t) s * 0x9E3779B97F4A7C15ULL)) * 2862933555777941757ULL + 3037000493ULL;
}

unsigned int __wrap_sleep(unsigned int n)
{
	if (cur < 0)
		return __real_sleep(n);
	emit("sleep %s %u", insts[cur].name, n);
	yield_to_kernel();
	return 0;
}

/* which network tools the simulated host has installed: 0 = whatever this machine has, 1 = iproute2 only (no net-tools:
   no ifconfig / route), 2 = none of them, 3 = net-tools only */
static int host_profile = 0;
int __real_access(const char *path, int mode);
int __wrap_access(const char *path, int mode)
{
	const char *b = strrchr(path, '/');
	b = b ? b + 1 : path;
	if (cur >= 0 && host_profile != 0) {
		int nettools = !strcmp(b, "ifconfig") || !strcmp(b, "route") || !strcmp(b, "netstat");
		int iproute = !strcmp(b, "ip");
		if (nettools || iproute) {
			int have = (nettools && host_profile == 3) || (iproute && host_profile == 1);
			if (!have) errno = ENOENT;
			return have ? 0 : -1;
		}
	}
	return __real_access(path, mode);
}

int __wrap_system(const char *cmd)
{
	if (cur < 0)
		return __real_system(cmd);
	fprintf(out, "sys %s ", insts[cur].name);
	emithex((const unsigned char *) cmd, strlen(cmd));
	fputc('\n', out);
	return system_rc;
}

uid_t __wrap_geteuid(void)
{
	return 0;
}

void __wrap_syslog(int pri, const char *fmt, ...)
{
	(void) pri; (void) fmt;
}

void __wrap_openlog(const char *ident, int option, int facility)
{
	(void) ident; (void) option; (void) facility;
}

int __wrap_daemon(int a, int b)
{
	(void) a; (void) b;
	return 0;
}

int __wrap_select(int nfds, fd_set *r, fd_set *w, fd_set *e, struct timeval *tv)
{
	struct inst *me;
	int i, n;
	long long us;

	if (cur < 0)
		return __real_select(nfds, r, w, e, tv);
	me = &insts[cur];
	us = tv ? (long long) tv->tv_sec * 1000000 + tv->tv_usec : -1;
	fprintf(out, "sel %s %lld", me->name, us);
	for (i = 0; i < nfds; i++)
		if (r && FD_ISSET(i, r))
			fprintf(out, " %d", i);
	fputc('\n', out);
	yield_to_kernel();
	if (r) FD_ZERO(r);
	if (w) FD_ZERO(w);
	if (e) FD_ZERO(e);
	n = 0;
	for (i = 0; i < me->wake_n; i++) {
		if (r) FD_SET(me->wake_fds[i], r);
		n++;
	}
	if (tv && n == 0) {
		tv->tv_sec = 0;
		tv->tv_usec = 0;
	}
	return n;
}

int __wrap_socket(int domain, int type, int protocol)
{
	int fd;
	if (cur < 0)
		return __real_socket(domain, type, protocol);
	fd = newvfd(1);
	if (fd >= 0)
		vfds[fd - FD_BASE].domain = domain;
	emit("sock %s %d %d", insts[cur].name, fd, domain);
	return fd;
}

int __wrap_bind(int fd, const struct sockaddr *sa, socklen_t len)
{
	struct vfd *v = getvfd(fd);
	if (cur < 0 || !v)
		return __real_bind(fd, sa, len);
	if (sa->sa_family == AF_INET) {
		const struct sockaddr_in *in = (const struct sockaddr_in *) sa;
		char ip[32];
		inet_ntop(AF_INET, &in->sin_addr, ip, sizeof(ip));
		emit("bind %s %d %s %d", insts[cur].name, fd, ip, ntohs(in->sin_port));
	} else if (sa->sa_family == AF_INET6) {
		const struct sockaddr_in6 *in6 = (const struct sockaddr_in6 *) sa;
		char ip[64];
		inet_ntop(AF_INET6, &in6->sin6_addr, ip, sizeof(ip));
		emit("bind %s %d %s %d", insts[cur].name, fd, ip, ntohs(in6->sin6_port));
	} else {
		emit("bind %s %d af%d 0", insts[cur].name, fd, sa->sa_family);
	}
	return 0;
}

int __wrap_setsockopt(int fd, int level, int name, const void *val, socklen_t len)
{
	if (cur < 0 || !getvfd(fd))
		return __real_setsockopt(fd, level, name, val, len);
	return 0;
}

int __wrap_fcntl(int fd, int cmd, ...)
{
	va_list ap;
	long arg;
	va_start(ap, cmd);
	arg = va_arg(ap, long);
	va_end(ap);
	if (cur < 0 || !getvfd(fd))
		return __real_fcntl(fd, cmd, arg);
	return 0;
}

int __wrap_close(int fd)
{
	struct vfd *v = getvfd(fd);
	if (cur < 0 || !v)
		return __real_close(fd);
	emit("close %s %d", insts[cur].name, fd);
	while (v->head) {
		struct dgram *d = v->head;
		v->head = d->next;
		free(d);
	}
	v->used = 0;
	return 0;
}

int __wrap_open(const char *path, int flags, ...)
{
	va_list ap;
	int mode;
	va_start(ap, flags);
	mode = va_arg(ap, int);
	va_end(ap);
	if (cur >= 0 && (!strcmp(path, "/dev/net/tun") || !strncmp(path, "/dev/tun", 8))) {
		int fd = newvfd(2);
		emit("tunopen %s %d", insts[cur].name, fd);
		return fd;
	}
	return __real_open(path, flags, mode);
}

int __wrap_ioctl(int fd, unsigned long req, ...)
{
	va_list ap;
	void *arg;
	struct vfd *v = getvfd(fd);
	va_start(ap, req);
	arg = va_arg(ap, void *);
	va_end(ap);
	if (cur < 0 || !v)
		return __real_ioctl(fd, req, arg);
	if (req == TUNSETIFF) {
		struct ifreq *ifr = arg;
		if (ifr->ifr_name[0] == '\0')
			snprintf(ifr->ifr_name, IFNAMSIZ, "dns%d", cur);
		emit("tunname %s %d %s", insts[cur].name, fd, ifr->ifr_name);
	}
	return 0;
}

static void paint(struct vfd *v, unsigned char *buf, size_t got, size_t cap)
{
	size_t rest, n;
	if (residue_mode == 4) {
		/* what a real kernel leaves behind: the bytes of the previous, longer datagram */
		if (got < cap) {
			rest = cap - got;
			n = 0;
			if (v->prev && (size_t) v->prevlen > got) {
				n = (size_t) v->prevlen - got;
				if (n > rest) n = rest;
				memcpy(buf + got, v->prev + got, n);
			}
			if (rest > n)
				memset(buf + got + n, 0x5A, rest - n);
		}
		free(v->prev);
		v->prev = malloc(got + 1);
		memcpy(v->prev, buf, got);
		v->prevlen = (int) got;
		return;
	}
	if (got >= cap || residue_mode == 0)
		return;
	rest = cap - got;
	switch (residue_mode) {
	case 1:
		memset(buf + got, 0, rest);
		break;
	case 2:
		memset(buf + got, 0xA5, rest);
		break;
	case 3:
		n = (size_t) residue_len < rest ? (size_t) residue_len : rest;
		memcpy(buf + got, residue_blob, n);
		if (rest > n)
			memset(buf + got + n, 0x5A, rest - n);
		break;
	case 5:
		/* the blob repeated from the end of the datagram on: small numbers a decoder would find meaningful
		   (a preference, a length, a pointer) wherever it reads past the end */
		if (residue_len > 0)
			for (n = 0; n < rest; n++)
				buf[got + n] = residue_blob[n % (size_t) residue_len];
		break;
	}
}

static struct dgram *popdg(struct vfd *v)
{
	struct dgram *d = v->head;
	if (d) {
		v->head = d->next;
		if (!v->head)
			v->tail = NULL;
	}
	return d;
}

static void fill_from(struct dgram *d, struct sockaddr *sa, socklen_t *slen)
{
	struct sockaddr_in in;
	socklen_t n;
	if (!sa || !slen)
		return;
	if (d->v6) {
		struct sockaddr_in6 in6;
		memset(&in6, 0, sizeof(in6));
		in6.sin6_family = AF_INET6;
		in6.sin6_addr = d->src6;
		in6.sin6_port = htons(d->srcport);
		n = *slen < sizeof(in6) ? *slen : sizeof(in6);
		memcpy(sa, &in6, n);
		*slen = sizeof(in6);
		return;
	}
	memset(&in, 0, sizeof(in));
	in.sin_family = AF_INET;
	in.sin_addr.s_addr = d->srcip;
	in.sin_port = htons(d->srcport);
	n = *slen < sizeof(in) ? *slen : sizeof(in);
	memcpy(sa, &in, n);
	*slen = sizeof(in);
}

ssize_t __wrap_recvfrom(int fd, void *buf, size_t len, int flags,
			struct sockaddr *sa, socklen_t *slen)
{
	struct vfd *v = getvfd(fd);
	struct dgram *d;
	size_t n;
	if (cur < 0 || !v)
		return __real_recvfrom(fd, buf, len, flags, sa, slen);
	d = popdg(v);
	if (!d) {
		emit("emptyrecv %s %d", insts[cur].name, fd);
		errno = EAGAIN;
		return -1;
	}
	n = (size_t) d->len < len ? (size_t) d->len : len;
	memcpy(buf, d->data, n);
	paint(v, buf, n, len);
	fill_from(d, sa, slen);
	emit("rcv %s %d %d", insts[cur].name, fd, (int) n);
	free(d);
	return n;
}

ssize_t __wrap_recv(int fd, void *buf, size_t len, int flags)
{
	if (cur < 0 || !getvfd(fd))
		return __real_recv(fd, buf, len, flags);
	return __wrap_recvfrom(fd, buf, len, flags, NULL, NULL);
}

ssize_t __wrap_recvmsg(int fd, struct msghdr *msg, int flags)
{
	struct vfd *v = getvfd(fd);
	struct dgram *d;
	size_t n, cap;
	if (cur < 0 || !v)
		return __real_recvmsg(fd, msg, flags);
	d = popdg(v);
	if (!d) {
		emit("emptyrecv %s %d", insts[cur].name, fd);
		errno = EAGAIN;
		return -1;
	}
	cap = msg->msg_iovlen > 0 ? msg->msg_iov[0].iov_len : 0;
	n = (size_t) d->len < cap ? (size_t) d->len : cap;
	if (n)
		memcpy(msg->msg_iov[0].iov_base, d->data, n);
	if (cap)
		paint(v, msg->msg_iov[0].iov_base, n, cap);
	if (msg->msg_name) {
		socklen_t sl = msg->msg_namelen;
		fill_from(d, msg->msg_name, &sl);
		msg->msg_namelen = sl;
	}
	if (d->v6 && msg->msg_control && msg->msg_controllen >= CMSG_SPACE(sizeof(struct in6_pktinfo))) {
		struct cmsghdr *c;
		struct in6_pktinfo pi6;
		memset(msg->msg_control, 0, msg->msg_controllen);
		c = CMSG_FIRSTHDR(msg);
		c->cmsg_level = IPPROTO_IPV6;
		c->cmsg_type = IPV6_PKTINFO;
		c->cmsg_len = CMSG_LEN(sizeof(pi6));
		memset(&pi6, 0, sizeof(pi6));
		pi6.ipi6_addr = d->dst6;
		memcpy(CMSG_DATA(c), &pi6, sizeof(pi6));
		msg->msg_controllen = CMSG_SPACE(sizeof(pi6));
	} else if (!d->v6 && msg->msg_control && msg->msg_controllen >= CMSG_SPACE(sizeof(struct in_pktinfo))) {
		struct cmsghdr *c;
		struct in_pktinfo pi;
		memset(msg->msg_control, 0, msg->msg_controllen);
		c = CMSG_FIRSTHDR(msg);
		c->cmsg_level = IPPROTO_IP;
		c->cmsg_type = IP_PKTINFO;
		c->cmsg_len = CMSG_LEN(sizeof(pi));
		memset(&pi, 0, sizeof(pi));
		pi.ipi_addr.s_addr = d->dstip;
		pi.ipi_spec_dst.s_addr = d->dstip;
		memcpy(CMSG_DATA(c), &pi, sizeof(pi));
		msg->msg_controllen = CMSG_SPACE(sizeof(pi));
	} else {
		msg->msg_controllen = 0;
	}
	msg->msg_flags = 0;
	emit("rcv %s %d %d", insts[cur].name, fd, (int) n);
	free(d);
	return n;
}

ssize_t __wrap_sendto(int fd, const void *buf, size_t len, int flags,
		      const struct sockaddr *sa, socklen_t slen)
{
	struct vfd *v = getvfd(fd);
	char ip[64] = "?";
	int port = 0;
	if (cur < 0 || !v)
		return __real_sendto(fd, buf, len, flags, sa, slen);
	if (sa && sa->sa_family == AF_INET) {
		const struct sockaddr_in *in = (const struct sockaddr_in *) sa;
		inet_ntop(AF_INET, &in->sin_addr, ip, sizeof(ip));
		port = ntohs(in->sin_port);
	} else if (sa && sa->sa_family == AF_INET6) {
		const struct sockaddr_in6 *in6 = (const struct sockaddr_in6 *) sa;
		inet_ntop(AF_INET6, &in6->sin6_addr, ip, sizeof(ip));
		port = ntohs(in6->sin6_port);
	} else if (sa) {
		snprintf(ip, sizeof(ip), "af%d", sa->sa_family);
	}
	fprintf(out, "send %s %d %s %d ", insts[cur].name, fd, ip, port);
	emithex(buf, len);
	fputc('\n', out);
	return len;
}

ssize_t __wrap_read(int fd, void *buf, size_t len)
{
	struct vfd *v = getvfd(fd);
	struct dgram *d;
	size_t n;
	if (cur < 0 || !v)
		return __real_read(fd, buf, len);
	d = popdg(v);
	if (!d) {
		emit("emptyread %s %d", insts[cur].name, fd);
		errno = EAGAIN;
		return -1;
	}
	n = (size_t) d->len < len ? (size_t) d->len : len;
	memcpy(buf, d->data, n);
	paint(v, buf, n, len);
	emit("tunr %s %d %d", insts[cur].name, fd, (int) n);
	free(d);
	return n;
}

ssize_t __wrap_write(int fd, const void *buf, size_t len)
{
	struct vfd *v = getvfd(fd);
	if (cur < 0 || !v)
		return __real_write(fd, buf, len);
	fprintf(out, "tunw %s %d ", insts[cur].name, fd);
	emithex(buf, len);
	fputc('\n', out);
	return len;
}

/* ---------- server state dump ---------- */
static uint32_t fnv(const void *p, size_t n, uint32_t h)
{
	const unsigned char *b = p;
	size_t i;
	for (i = 0; i < n; i++) {
		h ^= b[i];
		h *= 16777619u;
	}
	return h;
}

static const char *encname(const struct encoder *e)
{
	return e ? e->name : "none";
}

extern unsigned usercount;

/* ---------- client tunnel state (file-scope statics of client.c, made visible by objcopy in tools/build.py) ---------- */
#define CLIDECL(k) \
	extern struct packet cli##k##_outpkt, cli##k##_inpkt; \
	extern int cli##k##_outchunkresent, cli##k##_lazymode; \
	extern uint16_t cli##k##_chunkid, cli##k##_chunkid_prev, cli##k##_chunkid_prev2; \
	extern long cli##k##_send_ping_soon;
CLIDECL(0)
CLIDECL(1)
CLIDECL(2)

#define CLIDUMP(k) \
	fprintf(out, "cstate {\"c\":%d,\"out\":[%d,%d,%d,%d,%d],\"in\":[%d,%d,%d],\"resent\":%d," \
		"\"id\":%u,\"idp\":%u,\"idp2\":%u,\"ps\":%ld,\"lazy\":%d}\n", k, \
		cli##k##_outpkt.seqno & 255, cli##k##_outpkt.fragment & 255, cli##k##_outpkt.len, cli##k##_outpkt.offset, \
		cli##k##_outpkt.sentlen, cli##k##_inpkt.seqno & 255, cli##k##_inpkt.fragment & 255, cli##k##_inpkt.len, \
		cli##k##_outchunkresent, (unsigned) cli##k##_chunkid, (unsigned) cli##k##_chunkid_prev, \
		(unsigned) cli##k##_chunkid_prev2, cli##k##_send_ping_soon, cli##k##_lazymode)

static void dump_client(int k)
{
	if (k == 0) CLIDUMP(0);
	else if (k == 1) CLIDUMP(1);
	else if (k == 2) CLIDUMP(2);
}

static int dump_indata = 0;
static void dump_users(void)
{
	unsigned i;
	if (!users) {
		return;
	}
	for (i = 0; i < usercount; i++) {
		struct tun_user *u = &users[i];
		struct sockaddr_in *h = (struct sockaddr_in *) &u->host;
		struct sockaddr_in *qf = (struct sockaddr_in *) &u->q.from;
		char hip[64], tip[32], qip[64];
		struct in_addr ta;
		uint32_t dg;
		int k;

		if (u->host.ss_family == AF_INET6)
			inet_ntop(AF_INET6, &((struct sockaddr_in6 *) &u->host)->sin6_addr, hip, sizeof(hip));
		else
			inet_ntop(AF_INET, &h->sin_addr, hip, sizeof(hip));
		if (u->q.from.ss_family == AF_INET6)
			inet_ntop(AF_INET6, &((struct sockaddr_in6 *) &u->q.from)->sin6_addr, qip, sizeof(qip));
		else
			inet_ntop(AF_INET, &qf->sin_addr, qip, sizeof(qip));
		ta.s_addr = u->tun_ip;
		inet_ntop(AF_INET, &ta, tip, sizeof(tip));
		/* field-wise digest of everything that is session state */
		dg = 2166136261u;
		dg = fnv(&u->active, sizeof(int) * 5, dg);
		dg = fnv(&u->last_pkt, sizeof(u->last_pkt), dg);
		dg = fnv(&u->seed, sizeof(u->seed), dg);
		if (u->host.ss_family == AF_INET6)
			dg = fnv(&((struct sockaddr_in6 *) &u->host)->sin6_addr, 16, dg);
		else
			dg = fnv(&h->sin_addr, 4, dg);
		if (u->active) {
			dg = fnv(&u->q.id, 2, dg);
			dg = fnv(&u->q.id2, 2, dg);
			if (u->q.id) dg = fnv(u->q.name, strnlen(u->q.name, 256), dg);
			dg = fnv(&u->q_sendrealsoon.id, 2, dg);
			dg = fnv(&u->q_sendrealsoon.id2, 2, dg);
			dg = fnv(&u->inpacket.len, 12, dg);
			if (u->inpacket.len > 0 && u->inpacket.len <= (int) sizeof(u->inpacket.data))
				dg = fnv(u->inpacket.data, u->inpacket.len, dg);
			dg = fnv(&u->inpacket.seqno, 2, dg);
			dg = fnv(&u->outpacket.len, 12, dg);
			if (u->outpacket.len > 0 && u->outpacket.len <= (int) sizeof(u->outpacket.data))
				dg = fnv(u->outpacket.data, u->outpacket.len, dg);
			dg = fnv(&u->outpacket.seqno, 2, dg);
			dg = fnv(&u->outfragresent, 4, dg);
			dg = fnv(encname(u->encoder), strlen(encname(u->encoder)), dg);	/* not the pointer: ASLR */
			dg = fnv(&u->downenc, 1, dg);
			dg = fnv(&u->fragsize, 4, dg);
			dg = fnv(&u->conn, sizeof(u->conn), dg);
			dg = fnv(&u->lazy, 4, dg);
			dg = fnv(u->qmemping_cmc, sizeof(u->qmemping_cmc), dg);
			dg = fnv(u->qmemping_type, sizeof(u->qmemping_type), dg);
			dg = fnv(&u->qmemping_lastfilled, 4, dg);
			dg = fnv(u->qmemdata_cmc, sizeof(u->qmemdata_cmc), dg);
			dg = fnv(u->qmemdata_type, sizeof(u->qmemdata_type), dg);
			dg = fnv(&u->qmemdata_lastfilled, 4, dg);
			dg = fnv(&u->outpacketq_nexttouse, 8, dg);
			for (k = 0; k < OUTPACKETQ_LEN; k++)
				dg = fnv(&u->outpacketq[k].len, 4, dg);
			dg = fnv(&u->dnscache_lastfilled, 4, dg);
			dg = fnv(u->dnscache_answerlen, sizeof(u->dnscache_answerlen), dg);
			for (k = 0; k < DNSCACHE_LEN; k++) {
				dg = fnv(&u->dnscache_q[k].id, 2, dg);
				if (u->dnscache_q[k].id)
					dg = fnv(u->dnscache_q[k].name, strnlen(u->dnscache_q[k].name, 256), dg);
			}
		}
		fprintf(out, "user {\"u\":%u,\"active\":%d,\"auth\":%d,\"authraw\":%d,\"locked\":%d,"
			"\"disabled\":%d,\"last\":%ld,\"seed\":%d,\"tunip\":\"%s\",\"host\":\"%s\",\"hport\":%d,",
			i, u->active, u->authenticated, u->authenticated_raw, u->options_locked,
			u->disabled, (long) u->last_pkt, u->seed, tip, hip, ntohs(h->sin_port));
		fprintf(out, "\"q\":%d,\"q2\":%d,\"qtype\":%d,\"qfrom\":\"%s\",\"qport\":%d,\"qname\":\"",
			u->q.id, u->q.id2, u->q.type, qip, ntohs(qf->sin_port));
		if (u->active && u->q.id)
			emithex((unsigned char *) u->q.name, strnlen(u->q.name, 256));
		fprintf(out, "\",\"qrs\":%d,\"qrs2\":%d,\"qrsname\":\"",
			u->q_sendrealsoon.id, u->q_sendrealsoon.id2);
		if (u->active && u->q_sendrealsoon.id)
			emithex((unsigned char *) u->q_sendrealsoon.name, strnlen(u->q_sendrealsoon.name, 256));
		fprintf(out, "\",\"in\":[%d,%d,%d,%d],\"out\":[%d,%d,%d,%d,%d],\"resent\":%d,",
			u->inpacket.seqno, u->inpacket.fragment, u->inpacket.len, u->inpacket.offset,
			u->outpacket.seqno, u->outpacket.fragment, u->outpacket.len,
			u->outpacket.offset, u->outpacket.sentlen, u->outfragresent);
		fprintf(out, "\"enc\":\"%s\",\"downenc\":%d,\"fragsize\":%d,\"conn\":%d,\"lazy\":%d,"
			"\"outq\":%d,",
			u->active ? encname(u->encoder) : "none", u->active ? u->downenc : 0,
			u->fragsize, (int) u->conn, u->lazy, u->outpacketq_filled);
		if (dump_indata) {
			/* the upstream reassembly buffer itself (what the server extracted from the data queries so far) */
			fprintf(out, "\"indata\":\"");
			if (u->active && u->inpacket.len > 0 && u->inpacket.len <= (int) sizeof(u->inpacket.data))
				emithex((unsigned char *) u->inpacket.data, u->inpacket.len);
			fprintf(out, "\",");
		}
		fprintf(out, "\"digest\":%u}\n", dg);
	}
}

/* ---------- command loop ---------- */
static int find_inst(const char *name)
{
	int i;
	for (i = 0; i < MAXINST; i++)
		if (insts[i].used && !strcmp(insts[i].name, name))
			return i;
	return -1;
}

int main(int argc, char **argv)
{
	char *line = NULL;
	size_t cap = 0;
	ssize_t n;

	(void) argc; (void) argv;
	out = stdout;
	setvbuf(out, NULL, _IOFBF, 1 << 16);

	while ((n = getline(&line, &cap, stdin)) > 0) {
		char *tok[64];
		int nt = 0;
		char *sp;
		char *t;

		if (line[n - 1] == '\n')
			line[n - 1] = 0;
		for (t = strtok_r(line, " ", &sp); t && nt < 64; t = strtok_r(NULL, " ", &sp))
			tok[nt++] = t;
		if (nt == 0)
			continue;

		if (!strcmp(tok[0], "quit")) {
			break;
		} else if (!strcmp(tok[0], "time") && nt == 2) {
			vt_us = atoll(tok[1]);
		} else if (!strcmp(tok[0], "sysrc") && nt == 2) {
			system_rc = atoi(tok[1]);
		} else if (!strcmp(tok[0], "env") && nt == 3) {
			/* environment of the instance spawned next (the programs read it during start-up only) */
			unsigned char *b;
			int l = unhex(tok[2], &b);
			b[l] = 0;
			setenv(tok[1], (char *) b, 1);
			free(b);
		} else if (!strcmp(tok[0], "unenv") && nt == 2) {
			unsetenv(tok[1]);
		} else if (!strcmp(tok[0], "forcerand") && nt >= 3) {
			int k = find_inst(tok[1]), i;
			if (k >= 0)
				for (i = 2; i < nt && insts[k].forced_n < 8; i++)
					insts[k].forced[insts[k].forced_n++] = (int) strtol(tok[i], NULL, 0);
		} else if (!strcmp(tok[0], "dumpin") && nt == 2) {
			dump_indata = atoi(tok[1]);
		} else if (!strcmp(tok[0], "hostprofile") && nt == 2) {
			host_profile = atoi(tok[1]);
		} else if (!strcmp(tok[0], "residue") && nt >= 2) {
			residue_mode = atoi(tok[1]);
			free(residue_blob);
			residue_blob = NULL;
			residue_len = 0;
			if (nt >= 3)
				residue_len = unhex(tok[2], &residue_blob);
		} else if (!strcmp(tok[0], "spawn") && nt >= 4) {
			int k, i;
			pthread_attr_t at;
			for (k = 0; k < MAXINST; k++)
				if (!insts[k].used)
					break;
			if (k == MAXINST) {
				emit("error noslot");
			} else {
				struct inst *in = &insts[k];
				memset(in, 0, sizeof(*in));
				in->used = 1;
				snprintf(in->name, sizeof(in->name), "%s", tok[1]);
				in->kind = tok[2][0] == 'S' ? 0 : 1 + (tok[2][1] - '0');
				in->rng = strtoull(tok[3], NULL, 10) * 2862933555777941757ULL + 3037000493ULL;
				in->rng0 = in->rng;
				in->argc = nt - 4;
				in->argv = calloc(in->argc + 1, sizeof(char *));
				for (i = 0; i < in->argc; i++) {
					unsigned char *b;
					int l = unhex(tok[4 + i], &b);
					b[l] = 0;
					in->argv[i] = (char *) b;
				}
				pthread_attr_init(&at);
				pthread_attr_setstacksize(&at, 64UL << 20);
				pthread_create(&in->th, &at, inst_thread, (void *)(intptr_t) k);
				run_inst(k);
			}
		} else if (!strcmp(tok[0], "wake") && nt == 3) {
			int k = find_inst(tok[1]);
			if (k < 0 || insts[k].dead) {
				emit("error noinst");
			} else {
				struct inst *in = &insts[k];
				char *p = tok[2];
				in->wake_n = 0;
				if (strcmp(p, "-")) {
					char *s2, *f;
					for (f = strtok_r(p, ",", &s2); f && in->wake_n < 8; f = strtok_r(NULL, ",", &s2))
						in->wake_fds[in->wake_n++] = atoi(f);
				}
				run_inst(k);
			}
		} else if (!strcmp(tok[0], "dg") && nt == 6) {
			struct vfd *v = getvfd(atoi(tok[1]));
			if (!v) {
				emit("error nofd");
			} else {
				unsigned char *b;
				int l = unhex(tok[5], &b);
				struct dgram *d = malloc(sizeof(*d) + l + 1);
				d->next = NULL;
				d->v6 = strchr(tok[2], ':') != NULL;
				if (d->v6) {
					inet_pton(AF_INET6, tok[2], &d->src6);
					inet_pton(AF_INET6, tok[4], &d->dst6);
					d->srcip = d->dstip = 0;
				} else {
					d->srcip = inet_addr(tok[2]);
					d->dstip = inet_addr(tok[4]);
				}
				d->srcport = atoi(tok[3]);
				d->len = l;
				memcpy(d->data, b, l);
				free(b);
				if (v->tail) v->tail->next = d; else v->head = d;
				v->tail = d;
			}
		} else if (!strcmp(tok[0], "tq") && nt == 3) {
			struct vfd *v = getvfd(atoi(tok[1]));
			if (!v) {
				emit("error nofd");
			} else {
				unsigned char *b;
				int l = unhex(tok[2], &b);
				struct dgram *d = malloc(sizeof(*d) + l + 1);
				d->next = NULL;
				d->srcip = d->dstip = 0;
				d->v6 = 0;
				d->srcport = 0;
				d->len = l;
				memcpy(d->data, b, l);
				free(b);
				if (v->tail) v->tail->next = d; else v->head = d;
				v->tail = d;
			}
		} else if (!strcmp(tok[0], "users")) {
			dump_users();
		} else if (!strcmp(tok[0], "cstate") && nt == 2) {
			dump_client(atoi(tok[1]));
		} else {
			emit("error badcmd %s", tok[0]);
		}
		emit(".");
		fflush(out);
	}
	fflush(out);
	_exit(0);
}
