/*
 * drv_login - records login_calculate() calls as NDJSON events for TLC (spec/Login.tla, property C19).
 * usage: drv_login <seed> <count>
 * The 32-byte password array is prepared the way both programs do it (strncpy into a zeroed char[33]).
 */
#include <stdio.h>
#include <stdlib.h>
#include <string.h>
#include <stdint.h>
#include "login.h"

static uint64_t rng;
static unsigned rnd(void)
{
	rng = rng * 6364136223846793005ULL + 1442695040888963407ULL;
	return (unsigned) (rng >> 33);
}

static void parr(const char *key, const unsigned char *p, int n)
{
	int i;
	printf("\"%s\":[", key);
	for (i = 0; i < n; i++)
		printf(i ? ",%d" : "%d", p[i]);
	printf("]");
}

static void calc(const unsigned char *pw, int pwlen, uint32_t seed, unsigned char *out)
{
	char password[33];
	char tmp[64];
	memset(password, 0, sizeof(password));
	memcpy(tmp, pw, pwlen);
	tmp[pwlen] = 0;
	strncpy(password, tmp, sizeof(password));
	password[sizeof(password) - 1] = 0;
	memset(out, 0xEE, 16);
	login_calculate((char *) out, 16, password, (int) seed);
}

static void seedarr(uint32_t s)
{
	printf("\"seed\":[%u,%u,%u,%u]", s >> 24, (s >> 16) & 255, (s >> 8) & 255, s & 255);
}

int main(int argc, char **argv)
{
	static const uint32_t special[] = { 0, 1, 0xFFFFFFFFu, 0x7FFFFFFFu, 0x80000000u, 0x01020304u, 0x04030201u,
		0x000000FFu, 0xFF000000u, 0x00FF00FFu, 0xA5A5A5A5u, 0x12345678u };
	int count = argc > 2 ? atoi(argv[2]) : 100;
	int i, j;
	rng = (argc > 1 ? strtoull(argv[1], NULL, 10) : 1) * 2862933555777941757ULL + 3037000493ULL;
	for (i = 0; i < count; i++) {
		unsigned char pw[48], pw2[48], out[16], out2[16];
		int len = i < 41 ? i : (int) (rnd() % 41);
		uint32_t seed = i < 12 ? special[i] : (i % 5 == 0 ? special[rnd() % 12] : ((uint32_t) rnd() << 1) ^ rnd());
		uint32_t seed2 = seed;
		int same, pos;
		for (j = 0; j < len; j++) {
			pw[j] = (unsigned char) (1 + rnd() % 255);	/* C string: no embedded NUL */
			if (i % 7 == 3) pw[j] = 0xFF;
			if (i % 7 == 5) pw[j] = (unsigned char) ('a' + j % 26);
		}
		calc(pw, len, seed, out);
		printf("{\"e\":\"Login\",");
		parr("pw", pw, len);
		printf(",");
		seedarr(seed);
		printf(",");
		parr("out", out, 16);
		printf("}\n");
		/* differential: change one thing */
		memcpy(pw2, pw, len);
		same = 0;
		if (len > 32 && i % 3 == 0) {
			pos = 32 + (int) (rnd() % (len - 32));
			pw2[pos] = (unsigned char) (1 + (pw2[pos] % 255));
			if (pw2[pos] == pw[pos]) pw2[pos] = (unsigned char) (1 + (pw2[pos] + 7) % 255);
			same = 1;
		} else if (len > 0 && i % 3 == 1) {
			pos = (int) (rnd() % (len < 32 ? len : 32));
			pw2[pos] = (unsigned char) (pw2[pos] == 1 ? 2 : pw2[pos] - 1);
		} else {
			seed2 = seed ^ (1u << (rnd() % 32));
		}
		calc(pw2, len, seed2, out2);
		printf("{\"e\":\"Diff\",\"same\":%s,", same ? "true" : "false");
		parr("out1", out, 16);
		printf(",");
		parr("out2", out2, 16);
		printf("}\n");
		printf("{\"e\":\"Login\",");
		parr("pw", pw2, len);
		printf(",");
		seedarr(seed2);
		printf(",");
		parr("out", out2, 16);
		printf("}\n");
	}
	return 0;
}
