/*
 * drv_codec - records calls of the real encoder/decoder entry points (base32_ops, base64_ops,
 * base64u_ops, base128_ops) as NDJSON events for TLC (spec/Codec.tla, property C07).
 * usage: drv_codec <mode> <seed> <shard> <nshards> [scale]
 *   modes: short | pairs | long | dec
 */
#include <stdio.h>
#include <stdlib.h>
#include <string.h>
#include <stdint.h>
#include "common.h"
#include "encoding.h"

static const struct encoder *encs[4];
static const char *names[4] = { "b32", "b64", "b64u", "b128" };
static const int blk[4] = { 5, 3, 3, 7 };
static const int bits[4] = { 5, 6, 6, 7 };
static uint64_t rng;
static long counter;
static int shard, nshards;

static unsigned rnd(void)
{
	rng = rng * 6364136223846793005ULL + 1442695040888963407ULL;
	return (unsigned) (rng >> 33);
}

static void parr(const char *key, const unsigned char *p, int n)
{
	int i;
	printf("\"%s\":[", key);
	for (i = 0; i < n; i++)
		printf(i ? ",%d" : "%d", p[i]);
	printf("]");
}

#define GUARD 24
static unsigned char gbuf[3 * 70000];

/* encode in[0..n) with capacity cap; returns ret, sets *used; out points into gbuf */
static int do_enc(int c, const unsigned char *in, int n, int cap, int *used, unsigned char **out, int *guard_ok, int *nul_ok)
{
	size_t len = cap;
	int ret, i;
	unsigned char *buf = gbuf + GUARD;
	memset(gbuf, 0xEE, GUARD + cap + 1 + GUARD);
	ret = encs[c]->encode((char *) buf, &len, in, n);
	*used = (int) len;
	*out = buf;
	*guard_ok = 1;
	for (i = 0; i < GUARD; i++)
		if (gbuf[i] != 0xEE || buf[cap + 1 + i] != 0xEE)
			*guard_ok = 0;
	*nul_ok = (ret >= 0 && ret <= cap && buf[ret] == 0);
	return ret;
}

static int do_dec(int c, const unsigned char *text, int tn, unsigned char *dst, int cap)
{
	size_t len = cap;
	return encs[c]->decode(dst, &len, (const char *) text, tn);
}

static int mine(void)
{
	return (counter++ % nshards) == shard;
}

static void ev_enc(int c, const unsigned char *in, int n, int cap)
{
	static unsigned char dec[70000], up[70000], decup[70000];
	unsigned char *out;
	int used, g, nul, ret, dn, i, dun = 0;
	if (!mine())
		return;
	ret = do_enc(c, in, n, cap, &used, &out, &g, &nul);
	if (ret < 0) ret = 0;
	if (ret > cap + 8) ret = cap + 8;
	memcpy(up, out, ret);
	dn = do_dec(c, up, ret, dec, sizeof(dec) - 1);
	printf("{\"e\":\"Enc\",\"codec\":\"%s\",", names[c]);
	parr("in", in, n);
	printf(",\"cap\":%d,\"ret\":%d,\"used\":%d,", cap, ret, used);
	parr("out", up, ret);
	printf(",\"guard\":%s,\"nul\":%s,", g ? "true" : "false", nul ? "true" : "false");
	parr("dec", dec, dn < 0 ? 0 : dn);
	if (c == 0) {
		for (i = 0; i < ret; i++)
			if (up[i] >= 'a' && up[i] <= 'z')
				up[i] -= 32;
		dun = do_dec(c, up, ret, decup, sizeof(decup) - 1);
	}
	printf(",");
	parr("decupper", decup, dun < 0 ? 0 : dun);
	printf("}\n");
}

/* logn = how much of the text the event shows: all of it, or - for a text with a NUL inside - the part in front of the
   NUL (the decoders' contract: decoding stops early when the text contains a NUL, whatever lies behind it) */
static void ev_dec2(int c, const unsigned char *text, int tn, int logn, int cap);
static void ev_dec(int c, const unsigned char *text, int tn, int cap)
{
	ev_dec2(c, text, tn, tn, cap);
}
static void ev_dec2(int c, const unsigned char *text, int tn, int logn, int cap)
{
	unsigned char *buf = gbuf + GUARD;
	int ret, i, g = 1;
	if (!mine())
		return;
	memset(gbuf, 0xEE, GUARD + cap + 1 + GUARD);
	ret = do_dec(c, text, tn, buf, cap);
	tn = logn;
	for (i = 0; i < GUARD; i++)
		if (gbuf[i] != 0xEE || buf[cap + 1 + i] != 0xEE)
			g = 0;
	if (ret < 0) ret = 0;
	if (ret > cap + 8) ret = cap + 8;
	printf("{\"e\":\"Dec\",\"codec\":\"%s\",", names[c]);
	parr("text", text, tn);
	printf(",\"cap\":%d,\"ret\":%d,", cap, ret);
	parr("out", buf, ret);
	printf(",\"guard\":%s}\n", g ? "true" : "false");
}

static void ev_chunks(int c, const unsigned char *in, int n, int cap)
{
	static unsigned char dec[70000];
	int off = 0, first = 1, rounds = 0;
	if (!mine())
		return;
	printf("{\"e\":\"Chunks\",\"codec\":\"%s\",", names[c]);
	parr("in", in, n);
	printf(",\"cap\":%d,\"parts\":[", cap);
	while (off < n && rounds++ < 100000) {
		unsigned char *out;
		int used, g, nul, ret, dn;
		ret = do_enc(c, in + off, n - off, cap, &used, &out, &g, &nul);
		if (used <= 0 || ret < 0)
			break;
		dn = do_dec(c, out, ret, dec, sizeof(dec) - 1);
		printf("%s{\"off\":%d,\"used\":%d,", first ? "" : ",", off, used);
		parr("dec", dec, dn < 0 ? 0 : dn);
		printf("}");
		first = 0;
		off += used;
	}
	printf("]}\n");
}

static void fill(unsigned char *p, int n, int kind)
{
	int i;
	for (i = 0; i < n; i++)
		p[i] = kind == 0 ? 0 : kind == 1 ? 0xFF : (unsigned char) rnd();
}

int main(int argc, char **argv)
{
	static unsigned char in[70000], text[70000];
	const char *mode = argc > 1 ? argv[1] : "short";
	int scale = argc > 5 ? atoi(argv[5]) : 1;
	int c, a, b, cap, n, p, k, i;

	rng = (argc > 2 ? strtoull(argv[2], NULL, 10) : 1) * 2862933555777941757ULL + 3037000493ULL;
	shard = argc > 3 ? atoi(argv[3]) : 0;
	nshards = argc > 4 ? atoi(argv[4]) : 1;
	encs[0] = &base32_ops;
	encs[1] = &base64_ops;
	encs[2] = &base64u_ops;
	encs[3] = &base128_ops;

	if (!strcmp(mode, "short")) {
		for (c = 0; c < 4; c++) {
			for (cap = 0; cap <= 3; cap++)
				ev_enc(c, in, 0, cap);
			for (a = 0; a < 256; a++) {
				in[0] = a;
				for (cap = 0; cap <= 4; cap++)
					ev_enc(c, in, 1, cap);
			}
			/* every byte pair: full capacity; every scale-th pair also at every smaller capacity */
			for (a = 0; a < 256; a++)
				for (b = 0; b < 256; b++) {
					in[0] = a;
					in[1] = b;
					if (scale > 1 && rnd() % scale != 0)
						continue;	/* quick tier: a seeded 1/scale of the pairs */
					ev_enc(c, in, 2, 6);
					if (rnd() % 16 == 0)
						for (cap = 0; cap <= 5; cap++)
							ev_enc(c, in, 2, cap);
				}
		}
	} else if (!strcmp(mode, "pairs")) {
		/* adjacent byte pair (a,b) at every position of a block, other bytes 0x00 / 0xFF / random */
		for (c = 0; c < 4; c++)
			for (p = 0; p + 1 < blk[c] + 2; p++)
				for (k = 0; k < 65536; k += (scale > 0 ? scale : 1)) {
					int kk = scale > 1 ? (int) (rnd() & 0xFFFF) : k;
					n = p + 2 + (int) (rnd() % 3);
					fill(in, n, (int) (rnd() % 3));
					in[p] = kk >> 8;
					in[p + 1] = kk & 255;
					cap = ((8 * n + bits[c] - 1) / bits[c]) + (int) (rnd() % 3);
					if (rnd() % 4 == 0)
						cap = (int) (rnd() % (cap + 1));
					ev_enc(c, in, n, cap);
				}
	} else if (!strcmp(mode, "long")) {
		int step = scale > 0 ? scale : 1;
		for (c = 0; c < 4; c++)
			for (n = 0; n <= 4096; n += 1) {
				int full = (8 * n + bits[c] - 1) / bits[c];
				int boundary = n <= 64 || n >= 4090 || ((n & (n - 1)) == 0) || ((n & (n + 1)) == 0) ||
					(((n - 1) & (n - 2)) == 0) || (n <= 600 && ((n % 57) <= 1 || (n % 57) == 56));
				if (!boundary && step > 1 && (rnd() % step) != 0)
					continue;
				for (k = 0; k < 3; k++) {
					if (n > 64 && k < 2 && !boundary && (n % 8) != 0)
						continue;
					fill(in, n, k);
					ev_enc(c, in, n, 2 * n + 2);
					if (n <= 64) {
						for (cap = 0; cap <= full + 1; cap++)
							ev_enc(c, in, n, cap);
					} else if (k == 2) {
						ev_enc(c, in, n, full - 1);
						ev_enc(c, in, n, (int) (rnd() % (full + 1)));
					}
				}
				if (n > 0 && (n < 40 || rnd() % 16 == 0)) {
					static const int caps[] = { 2, 3, 4, 5, 7, 8, 9, 16, 57, 100, 200, 255 };
					fill(in, n, 2);
					ev_chunks(c, in, n, caps[rnd() % 12]);
					ev_chunks(c, in, n, caps[rnd() % 12]);
				}
			}
	} else if (!strcmp(mode, "dec")) {
		int total = 4000 / (scale > 0 ? scale : 1) + 200;
		for (c = 0; c < 4; c++)
			for (i = 0; i < total; i++) {
				int tn = (int) (rnd() % (i % 10 == 0 ? 600 : 24));
				int j;
				for (j = 0; j < tn; j++) {
					unsigned r = rnd();
					/* mostly alphabet characters, some illegal ones (never NUL: decoding stops there) */
					text[j] = (r % 16 == 0) ? (unsigned char) (1 + (r >> 8) % 255) :
						(unsigned char) "abcdefghijklmnopqrstuvwxyzABCDEFGHIJKLMNOPQRSTUVWXYZ0123456789-+_"[(r >> 8) % 65];
					if (c == 3 && r % 3 == 0)
						text[j] = (unsigned char) (188 + (r >> 8) % 66);
				}
				ev_dec(c, text, tn, (int) (rnd() % (tn + 2)));
				ev_dec(c, text, tn, tn + 2);
				if (tn >= 3 && i % 3 == 0) {
					/* a NUL inside the text (a shorter text written over a longer one): at every position class -
					   block boundary, inside a block, right at the start - with junk behind it */
					int z = (i % 9 == 0) ? (int) (rnd() % 3) * 4 % tn : (i % 9 == 3) ? (int) (rnd() % (unsigned) tn) / 8 * 8 % tn : (int) (rnd() % (unsigned) tn);
					unsigned char keep = text[z];
					text[z] = 0;
					ev_dec2(c, text, tn, z, tn + 2);
					ev_dec2(c, text, tn, z, z > 0 ? (int) (rnd() % (unsigned) (z + 1)) : 0);
					text[z] = keep;
				}
			}
	}
	return 0;
}
