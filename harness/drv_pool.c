/*
 * drv_pool - records init_users() / find_user_by_ip() as NDJSON for TLC (spec/AddrPool.tla, C18).
 * usage: drv_pool pool <minmask> <maxmask> <shard> <nshards> <seed>   every host position for masks in range
 *        drv_pool sample <seed> <count>                               /8../15: boundary + random positions
 *        drv_pool lookup <seed> <count>
 */
#include <stdio.h>
#include <stdlib.h>
#include <string.h>
#include <stdint.h>
#include <time.h>
#include <arpa/inet.h>
#include "common.h"
#include "encoding.h"
#include "user.h"

static uint64_t rng;
static unsigned rnd(void)
{
	rng = rng * 6364136223846793005ULL + 1442695040888963407ULL;
	return (unsigned) (rng >> 33);
}
static void pip(uint32_t hostorder)
{
	printf("[%u,%u,%u,%u]", hostorder >> 24, (hostorder >> 16) & 255, (hostorder >> 8) & 255, hostorder & 255);
}
static void ev_pool(uint32_t ip, int mask)
{
	int n, i;
	if (users) { free(users); users = NULL; }
	n = init_users(htonl(ip), mask);
	printf("{\"e\":\"Pool\",\"ip\":");
	pip(ip);
	printf(",\"mask\":%d,\"count\":%d,\"addrs\":[", mask, n);
	for (i = 0; i < n && i < 64; i++) {
		if (i) printf(",");
		pip(ntohl(users[i].tun_ip));
	}
	printf("]}\n");
}

int main(int argc, char **argv)
{
	const char *mode = argc > 1 ? argv[1] : "pool";
	if (!strcmp(mode, "pool")) {
		int lo = atoi(argv[2]), hi = atoi(argv[3]), shard = atoi(argv[4]), ns = atoi(argv[5]);
		int m;
		long cnt = 0;
		rng = strtoull(argv[6], NULL, 10) * 2862933555777941757ULL + 3037000493ULL;
		for (m = lo; m <= hi; m++) {
			uint32_t size = 1u << (32 - m);
			uint32_t base = ((10u << 24) | ((rnd() & 0xFFFF) << 8)) & ~(size - 1);
			uint32_t h;
			if (m < 16) base = (172u << 24) & ~(size - 1);
			for (h = 0; h < size; h++) {
				if ((cnt++ % ns) != shard) continue;
				ev_pool(base + h, m);
			}
		}
	} else if (!strcmp(mode, "sample")) {
		int count = atoi(argv[3]), i, m;
		rng = strtoull(argv[2], NULL, 10) * 2862933555777941757ULL + 3037000493ULL;
		for (m = 8; m <= 30; m++) {
			uint32_t size = 1u << (32 - m);
			uint32_t base = ((rnd() << 8) ^ rnd()) & ~(size - 1);
			uint32_t edge[] = { 0, 1, 2, 3, 15, 16, 17, 18, size - 1, size - 2, size - 3, size - 17, size - 18, size / 2, 255, 256, 257 };
			for (i = 0; i < 17; i++)
				ev_pool(base + (edge[i] % size), m);
			for (i = 0; i < count; i++)
				ev_pool(base + (((rnd() << 3) ^ rnd()) % size), m);
		}
	} else {
		int count = atoi(argv[3]), i, k;
		static const int ages[] = { 0, 1, 30, 57, 63, 100, 100000 };
		rng = strtoull(argv[2], NULL, 10) * 2862933555777941757ULL + 3037000493ULL;
		for (i = 0; i < count; i++) {
			int m = 24 + rnd() % 7;
			/* the server anywhere in its subnet: below, inside and above the run of client addresses (the pool skips it) */
			uint32_t size = 1u << (32 - m);
			uint32_t host = (i % 3 == 0) ? 1 : (i % 3 == 1) ? 1 + rnd() % 18 : rnd() % size;
			uint32_t ip = (10u << 24) | ((rnd() & 0xFF) << 8) | (host % size);
			time_t now = time(NULL);
			int n, ret, age[16];
			uint32_t q;
			if (users) { free(users); users = NULL; }
			n = init_users(htonl(ip), m);
			for (k = 0; k < n; k++) {
				users[k].active = rnd() % 4 != 0;
				users[k].authenticated = rnd() % 4 != 0;
				users[k].disabled = rnd() % 8 == 0;
				age[k] = ages[rnd() % 7];
				users[k].last_pkt = now - age[k];
			}
			q = rnd() % 5 == 0 ? ip + 77 : rnd() % 9 == 0 ? ip : ntohl(users[rnd() % n].tun_ip);
			ret = find_user_by_ip(htonl(q));
			printf("{\"e\":\"Lookup\",\"slots\":[");
			for (k = 0; k < n; k++) {
				printf("%s{\"active\":%s,\"auth\":%s,\"disabled\":%s,\"age\":%d,\"ip\":", k ? "," : "",
				       users[k].active ? "true" : "false", users[k].authenticated ? "true" : "false",
				       users[k].disabled ? "true" : "false", age[k]);
				pip(ntohl(users[k].tun_ip));
				printf("}");
			}
			printf("],\"ip\":");
			pip(q);
			printf(",\"ret\":%d}\n", ret < 0 ? 99 : ret);
		}
	}
	return 0;
}
