/*
 * drv_host - records build_hostname() and the server-side extraction path (dns_encode -> dns_decode ->
 * query_datalen -> unpack_data) as NDJSON for TLC (spec/Hostname.tla, C08).
 * usage: drv_host <seed> <shard> <nshards> <domstep>    all L in 100..255 x domain lengths 3..min(128, L-24) step domstep
 */
#include <stdio.h>
#include <stdlib.h>
#include <string.h>
#include <stdint.h>
#include "common.h"
#include "encoding.h"
#include "dns.h"

static const struct encoder *encs[4];
static const char *names[4] = { "b32", "b64", "b64u", "b128" };
static uint64_t rng;
static unsigned rnd(void)
{
	rng = rng * 6364136223846793005ULL + 1442695040888963407ULL;
	return (unsigned) (rng >> 33);
}
static void parr(const char *key, const unsigned char *p, int n)
{
	int i;
	printf("\"%s\":[", key);
	for (i = 0; i < n; i++)
		printf(i ? ",%d" : "%d", p[i]);
	printf("]");
}
static void mkdomain(char *d, int len, int variant)
{
	int i;
	for (i = 0; i < len; i++)
		d[i] = "abcdefghijklmnopqrstuvwxyz0123456789-"[(i * 7 + variant) % (i == 0 || i == len - 1 ? 36 : 37)];
	d[len] = 0;
	if (len < 32) {
		d[len >= 5 && variant % 2 ? len - 3 : 1] = '.';
	} else if (len >= 66 && variant % 5 == 0) {
		/* a label of exactly 63 characters (the longest legal one) in front, the rest in labels of <= 63 */
		d[63] = '.';
		for (i = 63 + 51 - (variant / 5) % 3; i < len - 1; i += 51)
			d[i] = '.';
	} else if (len >= 66 && variant % 5 == 1) {
		/* ... or as the last label */
		d[len - 64] = '.';
		for (i = len - 64 - 30 - variant % 30; i > 0; i -= 40)
			d[i] = '.';
	} else {
		for (i = 20 + variant % 9; i < len - 1; i += 28 + variant % 30)
			d[i] = '.';
	}
	for (i = 1; i < len; i++)		/* no '-' next to dots or at ends needed, but no double dots */
		if (d[i] == '.' && d[i - 1] == '.')
			d[i] = 'x';
}

static void one(int L, const char *dom, int c, int hdr, const unsigned char *pay, int paylen)
{
	char buf[4096], packet[4096], in[512];
	unsigned char unpacked[4096];
	struct query q, q2;
	int n, plen, dl, dlw = -2, srv = 0;
	char wdom[200];
	const char *firstdot;

	memset(buf, 0, sizeof(buf));
	memcpy(buf, "0abcx", 5);
	if (hdr == 1) buf[0] = 'z';
	n = build_hostname(buf + hdr, sizeof(buf) - hdr, (const char *) pay, paylen, dom, encs[c], L);
	memset(&q, 0, sizeof(q));
	q.type = 10; /* NULL */
	q.id = 4711;
	plen = dns_encode(packet, sizeof(packet), &q, QR_QUERY, buf, strlen(buf));
	memset(&q2, 0, sizeof(q2));
	dl = -3;
	if (plen > 0 && dns_decode(NULL, 0, &q2, QR_QUERY, packet, plen) > 0) {
		dl = query_datalen(q2.name, dom);
		firstdot = strchr(dom, '.');
		if (firstdot && strchr(firstdot + 1, '.')) {
			snprintf(wdom, sizeof(wdom), "*%s", firstdot);
			dlw = query_datalen(q2.name, wdom);
		}
		if (dl > hdr) {
			memcpy(in, q2.name, dl < (int) sizeof(in) ? dl : (int) sizeof(in));
			srv = unpack_data((char *) unpacked, sizeof(unpacked), in + hdr, dl - hdr, encs[c]);
			if (srv < 0) srv = 0;
		}
	}
	printf("{\"e\":\"Host\",\"L\":%d,", L);
	parr("dom", (const unsigned char *) dom, strlen(dom));
	printf(",\"codec\":\"%s\",\"hdr\":%d,\"paylen\":%d,", names[c], hdr, paylen);
	parr("pay", pay, paylen < 300 ? paylen : 300);
	printf(",");
	parr("name", (const unsigned char *) buf, strlen(buf));
	printf(",\"n\":%d,\"srvlen\":%d,\"srvlenw\":%d,\"pktlen\":%d,", n, dl, dlw == -2 ? dl : dlw, plen);
	parr("srv", unpacked, srv);
	printf("}\n");
}

int main(int argc, char **argv)
{
	static unsigned char pay[4096];
	int shard = argc > 2 ? atoi(argv[2]) : 0, ns = argc > 3 ? atoi(argv[3]) : 1, domstep = argc > 4 ? atoi(argv[4]) : 1;
	int L, dlen, c, k, i;
	long cnt = 0;
	char dom[200];
	rng = (argc > 1 ? strtoull(argv[1], NULL, 10) : 1) * 2862933555777941757ULL + 3037000493ULL;
	encs[0] = &base32_ops; encs[1] = &base64_ops; encs[2] = &base64u_ops; encs[3] = &base128_ops;
	for (L = 100; L <= 255; L++) {
		int maxd = L - 24 < 128 ? L - 24 : 128;
		for (dlen = 3; dlen <= maxd; dlen++) {
			/* the default limit (and the one next to it) is where the name is tightest: every domain length */
			int pick = (dlen == 3 || dlen == maxd || dlen == maxd - 1 || dlen == 4 || (dlen + L) % domstep == 0 || L >= 254);
			if (!pick) continue;
			if ((cnt++ % ns) != shard) continue;
			mkdomain(dom, dlen, (int) (rnd() % 50));
			for (c = 0; c < 4; c++) {
				int fit, lens[6], hdr;
				char tmp[4096];
				for (i = 0; i < 2048; i++) pay[i] = (unsigned char) rnd();
				memset(tmp, 0, sizeof(tmp));
				fit = build_hostname(tmp + 5, sizeof(tmp) - 5, (char *) pay, 2048, dom, encs[c], L);
				lens[0] = 1; lens[1] = 2; lens[2] = fit - 1; lens[3] = fit; lens[4] = fit + 1; lens[5] = 2048;
				for (k = 0; k < 6; k++) {
					if (lens[k] < 1) continue;
					if (k == 3) memset(pay, 0xFF, 2048);
					if (k == 4) memset(pay, 0x00, 2048);
					if (k == 5) for (i = 0; i < 2048; i++) pay[i] = (unsigned char) rnd();
					one(L, dom, c, 5, pay, lens[k]);
				}
				hdr = 1;
				if (c == 0) {
					one(L, dom, c, hdr, pay, 1 + (int) (rnd() % 20));
					one(L, dom, c, hdr, pay, 2048);
				}
			}
		}
	}
	return 0;
}
