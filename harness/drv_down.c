/*
 * drv_down - the real downstream pipe: write_dns() of iodined.c -> wire bytes -> read_dns_withq() of client.c,
 * recorded as NDJSON for TLC (spec/Downstream.tla, C09; the wire bytes are also judged by DnsWire.tla, C10).
 * usage: drv_down <seed> <shard> <nshards> <step> [wire]
 *   payload kinds (TLC regenerates them): 0 all-0x00, 1 all-0xFF, 2 probe pattern, 3 quadratic pseudo-random
 */
// WRAP: sendto recvfrom
// LINK: tun util
#include <stdio.h>
#include <stdlib.h>
#include <string.h>
#include <stdint.h>
#include <sys/socket.h>

void srv_answer(unsigned short qtype, const char *qname, int id, char downenc, const char *data, int datalen);
int cli_extract(char *buf, int buflen, int *anstype);

static unsigned char wire[70000];
static int wirelen = -1;

ssize_t __wrap_sendto(int fd, const void *buf, size_t len, int flags, const struct sockaddr *sa, socklen_t slen)
{
	wirelen = len > sizeof(wire) ? (int) sizeof(wire) : (int) len;
	memcpy(wire, buf, wirelen);
	return len;
}
/* what the receive buffer holds behind the datagram: 0 = 64 bytes of 0xA5 (default), 1 zeros, 2 0xA5, 3 the tail of the
   previous (complete) datagram, 4.. a repeated two-byte pattern of small numbers */
static int paint_mode = 0;
static unsigned char prevwire[70000];
static int prevlen = 0;
static const unsigned char pats[][2] = { { 0x00, 0x0a }, { 0x00, 0x14 }, { 0x01, 0x00 }, { 0xc0, 0x0c }, { 0x0a, 0x00 } };
#define NPAINT 9

ssize_t __wrap_recvfrom(int fd, void *buf, size_t len, int flags, struct sockaddr *sa, socklen_t *slen)
{
	int n = wirelen;
	size_t i, rest;
	unsigned char *b = buf;
	if (n < 0) return -1;
	if ((size_t) n > len) n = (int) len;
	memcpy(buf, wire, n);
	rest = len - n;
	switch (paint_mode) {
	case 0: memset(b + n, 0xA5, rest > 64 ? 64 : rest); break;
	case 1: memset(b + n, 0, rest); break;
	case 2: memset(b + n, 0xA5, rest); break;
	case 3:
		memset(b + n, 0x5A, rest);
		if (prevlen > n)
			memcpy(b + n, prevwire + n, (size_t) (prevlen - n) < rest ? (size_t) (prevlen - n) : rest);
		break;
	default:
		for (i = 0; i < rest; i++)
			b[n + i] = pats[(paint_mode - 4) % 5][i & 1];
		break;
	}
	if (slen) *slen = 0;
	return n;
}

/* offsets of the RDLENGTH fields of the answer records of a well-formed message produced by write_dns() */
static int rr_offsets(const unsigned char *w, int n, int *offs, int max)
{
	int p = 12, cnt = 0, an, i;
	if (n < 12) return 0;
	an = (w[6] << 8) | w[7];
	while (p < n && w[p] != 0 && (w[p] & 0xc0) != 0xc0) p += w[p] + 1;	/* question name */
	p += (p < n && (w[p] & 0xc0) == 0xc0) ? 2 : 1;
	p += 4;
	for (i = 0; i < an && cnt < max; i++) {
		while (p < n && w[p] != 0 && (w[p] & 0xc0) != 0xc0) p += w[p] + 1;
		p += (p < n && (w[p] & 0xc0) == 0xc0) ? 2 : 1;
		if (p + 10 > n) break;
		offs[cnt++] = p + 8;
		p += 10 + ((w[p + 8] << 8) | w[p + 9]);
	}
	return cnt;
}

static void gen(unsigned char *p, int n, int kind, int seed)
{
	int i;
	unsigned v = seed & 0xff;
	for (i = 0; i < n; i++) {
		switch (kind) {
		case 0: p[i] = 0; break;
		case 1: p[i] = 0xFF; break;
		case 2:
			if (i == 0) p[i] = (n >> 8) & 0xff; else if (i == 1) p[i] = n & 0xff; else if (i == 2) p[i] = 107;
			else { p[i] = v; v = (v + 107) & 0xff; }
			break;
		default: p[i] = (unsigned char) ((i * i * 7 + i * 13 + seed) & 0xff); break;
		}
	}
}
static void parr(const char *key, const unsigned char *p, int n)
{
	int i;
	printf("\"%s\":[", key);
	for (i = 0; i < n; i++) printf(i ? ",%d" : "%d", p[i]);
	printf("]");
}
static unsigned csum(const unsigned char *p, int n)
{
	unsigned s = 0;
	int i;
	for (i = 0; i < n; i++) s = (s + p[i] * (unsigned) (i % 251 + 1)) % 65521u;
	return s;
}

int main(int argc, char **argv)
{
	static const unsigned short types[7] = { 10, 65399, 16, 33, 15, 5, 1 };
	static const char codecs[5] = { 'T', 'S', 'U', 'V', 'R' };
	static unsigned char pay[5000];
	static char got[70000];
	int seed = argc > 1 ? atoi(argv[1]) : 1, shard = argc > 2 ? atoi(argv[2]) : 0, ns = argc > 3 ? atoi(argv[3]) : 1;
	int step = argc > 4 ? atoi(argv[4]) : 1, withwire = argc > 5;
	int t, c, qn, kind, n;
	long cnt = 0;
	char shortname[] = "paaaa.t.co";
	char longname[256];
	{
		int i, p = 0;
		for (i = 0; i < 240; i++) { longname[p++] = (i % 58 == 57) ? '.' : "abcdefghijklmnopqrstuvwxyz012345"[i % 32]; }
		strcpy(longname + p, ".t.example.co");
		longname[0] = 'p';
	}
	if (argc > 5 && !strcmp(argv[5], "residue")) {
		/* C12, client side, at the decoder itself: cut-down variants of real answers (every record boundary with
		   RDLENGTH patched to the 0 / 1 / 2 bytes left, and cuts at other places) decoded under every painting of
		   the receive buffer; all results must agree */
		static unsigned char full[70000], res0[70000];
		static const int sizes[] = { 2, 20, 150, 156, 200, 310, 460, 700, 1200 };
		int si, v;
		uint64_t rng = (uint64_t) seed * 2862933555777941757ULL + 3037000493ULL;
		for (t = 0; t < 7; t++)
			for (c = 0; c < 5; c++) {
				if (codecs[c] == 'R' && !(types[t] == 16 || types[t] == 10 || types[t] == 65399)) continue;
				if ((cnt++ % ns) != shard) continue;
				for (si = 0; si < 9; si++) {
					int offs[300], nrr, fl;
					n = sizes[si];
					gen(pay, n, 3, seed + n);
					wirelen = -1;
					srv_answer(types[t], shortname, 0x1234, codecs[c], (char *) pay, n);
					if (wirelen < 0) continue;
					fl = wirelen;
					memcpy(full, wire, fl);
					nrr = rr_offsets(full, fl, offs, 300);
					for (v = 0; v < nrr * 3 + 12 + (nrr > 0 ? 9 : 0); v++) {
						int cutlen, pm, r0 = 0, at0 = 0, equal = 1, r, at;
						memcpy(wire, full, fl);
						if (v < nrr * 3) {		/* record boundary, 0 / 1 / 2 bytes of rdata left */
							int o = offs[v / 3], left = v % 3;
							wire[o] = 0; wire[o + 1] = (unsigned char) left;
							cutlen = o + 2 + left;
						} else if (v >= nrr * 3 + 12) {
							/* inside the first record's rdata, RDLENGTH patched to what is left: around the end of its
							   first and second inner unit (s = first rdata byte: a TXT character-string length) - an inner
							   length that reaches 1, 0, -1, -2 bytes past the rdata */
							static const int mul[9] = { 1, 1, 1, 1, 2, 2, 2, 2, 3 }, add[9] = { -1, 0, 1, 2, 0, 1, 2, 3, 2 };
							int o = offs[0], k = v - (nrr * 3 + 12), sl = full[o + 2], left = mul[k] * sl + add[k];
							if (left < 1 || o + 2 + left >= fl) left = 1;
							wire[o] = (unsigned char) (left >> 8); wire[o + 1] = (unsigned char) (left & 0xff);
							cutlen = o + 2 + left;
						} else {
							rng = rng * 6364136223846793005ULL + 1442695040888963407ULL;
							cutlen = 12 + (int) ((rng >> 33) % (unsigned) (fl - 11));
						}
						if (cutlen > fl) cutlen = fl;
						memcpy(prevwire, full, fl);
						prevlen = fl;
						for (pm = 1; pm < NPAINT; pm++) {
							paint_mode = pm;
							wirelen = cutlen;
							memset(got, 0, 4200);
							r = cli_extract(got, sizeof(got), &at);
							if (r < 0) r = -1;
							if (pm == 1) { r0 = r; at0 = at; if (r > 0) memcpy(res0, got, r); }
							else if (r != r0 || (r > 0 && memcmp(res0, got, r)) || (r > 0 && at != at0)) equal = 0;
						}
						paint_mode = 0;
						printf("{\"e\":\"Pair\",\"i\":%d,\"equal\":%s,\"len\":%d,\"victim\":true,\"qt\":%d,\"codec\":\"%c\",\"cut\":\"%s\",\"hex\":\"\"}\n",
						       v, equal ? "true" : "false", cutlen, types[t], codecs[c], v < nrr * 3 ? "record" : v >= nrr * 3 + 12 ? "inner" : "random");
					}
				}
				printf("{\"e\":\"Reset\"}\n");
			}
		return 0;
	}
	for (t = 0; t < 7; t++)
		for (c = 0; c < 5; c++) {
			/* (codec R with a host-name record type is reachable - the option request accepts it for every type - and
			   is served as Base32) */
			for (qn = 0; qn < 2; qn++)
				for (kind = 0; kind < 4; kind++) {
					if ((cnt++ % ns) != shard) continue;
					/* one ascending sweep of lengths per (type, codec, name, content) */
					for (n = 2; n <= 4096; n++) {
						int r, at, full;
						if (!(n <= 40 || n % step == (kind + qn) % step || (n % 57) <= 1 || (n & (n - 1)) == 0 || n >= 4090 ||
						      (n >= 200 && n <= 260) || (n >= 1180 && n <= 1210) ||
						      /* around every multiple of what one host-name record carries (Base32 / Base64 / Base128) */
						      (n % 153) <= 2 || (n % 153) == 152 || (n % 183) <= 2 || (n % 183) == 182 ||
						      (n % 214) <= 2 || (n % 214) == 213))
							continue;
						gen(pay, n, kind, seed + n);
						wirelen = -1;
						srv_answer(types[t], qn ? longname : shortname, 0x1234, codecs[c], (char *) pay, n);
						r = wirelen >= 0 ? cli_extract(got, sizeof(got), &at) : -9;
						if (r < 0) r = 0;
						full = (n <= 64 || n % 16 == 0);
						if (withwire) {
							if (n <= 64 || n % 32 == 0 || (n >= 200 && n <= 260) || n >= 4090) {
								printf("{\"e\":\"Msg\",\"who\":\"S\",\"qt\":%d,\"codec\":\"%c\",\"len\":%d,", types[t], codecs[c], n);
								parr("b", wire, wirelen < 0 ? 0 : wirelen);
								printf("}\n");
							}
							continue;
						}
						printf("{\"e\":\"Down\",\"qt\":%d,\"codec\":\"%c\",\"qlen\":%d,\"kind\":%d,\"seed\":%d,\"len\":%d,\"glen\":%d,\"gsum\":%u,\"full\":%s,",
						       types[t], codecs[c], qn, kind, (seed + n) & 0xff, n, r, csum((unsigned char *) got, r), full ? "true" : "false");
						parr("got", (unsigned char *) got, full ? r : 0);
						printf("}\n");
						/* history independence of the reader: now and then a SHORT payload right after a long one */
						if (!withwire && n >= 100 && n % 7 == 0) {
							int n2 = 2 + (n / 7) % 40, r2, at2;
							gen(pay, n2, kind, seed + n2);
							wirelen = -1;
							srv_answer(types[t], qn ? longname : shortname, 0x1234, codecs[c], (char *) pay, n2);
							r2 = wirelen >= 0 ? cli_extract(got, sizeof(got), &at2) : -9;
							if (r2 < 0) r2 = 0;
							printf("{\"e\":\"Down\",\"qt\":%d,\"codec\":\"%c\",\"qlen\":%d,\"kind\":%d,\"seed\":%d,\"len\":%d,\"glen\":%d,\"gsum\":%u,\"full\":true,",
							       types[t], codecs[c], qn, kind, (seed + n2) & 0xff, n2, r2, csum((unsigned char *) got, r2));
							parr("got", (unsigned char *) got, r2);
							printf("}\n");
						}
					}
					printf("{\"e\":\"Reset\"}\n");
				}
		}
	return 0;
}
