/*
 * drv_down - the real downstream pipe: write_dns() of iodined.c -> wire bytes -> read_dns_withq() of client.c,
 * recorded as NDJSON for TLC (spec/Downstream.tla, C09; the wire bytes are also judged by DnsWire.tla, C10).
 * usage: drv_down <seed> <shard> <nshards> <step> [wire]
 *   payload kinds (TLC regenerates them): 0 all-0x00, 1 all-0xFF, 2 probe pattern, 3 quadratic pseudo-random
 */
// WRAP: sendto recvfrom
// LINK: tun util
#include <stdio.h>
#include <stdlib.h>
#include <string.h>
#include <stdint.h>
#include <sys/socket.h>

void srv_answer(unsigned short qtype, const char *qname, int id, char downenc, const char *data, int datalen);
int cli_extract(char *buf, int buflen, int *anstype);

static unsigned char wire[70000];
static int wirelen = -1;

ssize_t __wrap_sendto(int fd, const void *buf, size_t len, int flags, const struct sockaddr *sa, socklen_t slen)
{
	wirelen = len > sizeof(wire) ? (int) sizeof(wire) : (int) len;
	memcpy(wire, buf, wirelen);
	return len;
}
ssize_t __wrap_recvfrom(int fd, void *buf, size_t len, int flags, struct sockaddr *sa, socklen_t *slen)
{
	int n = wirelen;
	if (n < 0) return -1;
	if ((size_t) n > len) n = (int) len;
	memcpy(buf, wire, n);
	memset((char *) buf + n, 0xA5, len - n > 64 ? 64 : len - n);
	if (slen) *slen = 0;
	return n;
}

static void gen(unsigned char *p, int n, int kind, int seed)
{
	int i;
	unsigned v = seed & 0xff;
	for (i = 0; i < n; i++) {
		switch (kind) {
		case 0: p[i] = 0; break;
		case 1: p[i] = 0xFF; break;
		case 2:
			if (i == 0) p[i] = (n >> 8) & 0xff; else if (i == 1) p[i] = n & 0xff; else if (i == 2) p[i] = 107;
			else { p[i] = v; v = (v + 107) & 0xff; }
			break;
		default: p[i] = (unsigned char) ((i * i * 7 + i * 13 + seed) & 0xff); break;
		}
	}
}
static void parr(const char *key, const unsigned char *p, int n)
{
	int i;
	printf("\"%s\":[", key);
	for (i = 0; i < n; i++) printf(i ? ",%d" : "%d", p[i]);
	printf("]");
}
static unsigned csum(const unsigned char *p, int n)
{
	unsigned s = 0;
	int i;
	for (i = 0; i < n; i++) s = (s + p[i] * (unsigned) (i % 251 + 1)) % 65521u;
	return s;
}

int main(int argc, char **argv)
{
	static const unsigned short types[7] = { 10, 65399, 16, 33, 15, 5, 1 };
	static const char codecs[5] = { 'T', 'S', 'U', 'V', 'R' };
	static unsigned char pay[5000];
	static char got[70000];
	int seed = argc > 1 ? atoi(argv[1]) : 1, shard = argc > 2 ? atoi(argv[2]) : 0, ns = argc > 3 ? atoi(argv[3]) : 1;
	int step = argc > 4 ? atoi(argv[4]) : 1, withwire = argc > 5;
	int t, c, qn, kind, n;
	long cnt = 0;
	char shortname[] = "paaaa.t.co";
	char longname[256];
	{
		int i, p = 0;
		for (i = 0; i < 240; i++) { longname[p++] = (i % 58 == 57) ? '.' : "abcdefghijklmnopqrstuvwxyz012345"[i % 32]; }
		strcpy(longname + p, ".t.example.co");
		longname[0] = 'p';
	}
	for (t = 0; t < 7; t++)
		for (c = 0; c < 5; c++) {
			if (codecs[c] == 'R' && !(types[t] == 16 || types[t] == 10 || types[t] == 65399)) continue;
			for (qn = 0; qn < 2; qn++)
				for (kind = 0; kind < 4; kind++) {
					if ((cnt++ % ns) != shard) continue;
					/* one ascending sweep of lengths per (type, codec, name, content) */
					for (n = 2; n <= 4096; n++) {
						int r, at, full;
						if (!(n <= 40 || n % step == (kind + qn) % step || (n % 57) <= 1 || (n & (n - 1)) == 0 || n >= 4090 ||
						      (n >= 200 && n <= 260) || (n >= 1180 && n <= 1210)))
							continue;
						gen(pay, n, kind, seed + n);
						wirelen = -1;
						srv_answer(types[t], qn ? longname : shortname, 0x1234, codecs[c], (char *) pay, n);
						r = wirelen >= 0 ? cli_extract(got, sizeof(got), &at) : -9;
						if (r < 0) r = 0;
						full = (n <= 64 || n % 16 == 0);
						if (withwire) {
							if (n <= 64 || n % 32 == 0 || (n >= 200 && n <= 260) || n >= 4090) {
								printf("{\"e\":\"Msg\",\"who\":\"S\",\"qt\":%d,\"codec\":\"%c\",\"len\":%d,", types[t], codecs[c], n);
								parr("b", wire, wirelen < 0 ? 0 : wirelen);
								printf("}\n");
							}
							continue;
						}
						printf("{\"e\":\"Down\",\"qt\":%d,\"codec\":\"%c\",\"qlen\":%d,\"kind\":%d,\"seed\":%d,\"len\":%d,\"glen\":%d,\"gsum\":%u,\"full\":%s,",
						       types[t], codecs[c], qn, kind, (seed + n) & 0xff, n, r, csum((unsigned char *) got, r), full ? "true" : "false");
						parr("got", (unsigned char *) got, full ? r : 0);
						printf("}\n");
						/* history independence of the reader: now and then a SHORT payload right after a long one */
						if (!withwire && n >= 100 && n % 7 == 0) {
							int n2 = 2 + (n / 7) % 40, r2, at2;
							gen(pay, n2, kind, seed + n2);
							wirelen = -1;
							srv_answer(types[t], qn ? longname : shortname, 0x1234, codecs[c], (char *) pay, n2);
							r2 = wirelen >= 0 ? cli_extract(got, sizeof(got), &at2) : -9;
							if (r2 < 0) r2 = 0;
							printf("{\"e\":\"Down\",\"qt\":%d,\"codec\":\"%c\",\"qlen\":%d,\"kind\":%d,\"seed\":%d,\"len\":%d,\"glen\":%d,\"gsum\":%u,\"full\":true,",
							       types[t], codecs[c], qn, kind, (seed + n2) & 0xff, n2, r2, csum((unsigned char *) got, r2));
							parr("got", (unsigned char *) got, r2);
							printf("}\n");
						}
					}
					printf("{\"e\":\"Reset\"}\n");
				}
		}
	return 0;
}
