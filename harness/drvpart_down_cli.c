/* The client's reply reader: #includes client.c to reach the static read_dns_withq(). */
#include "client.c"

int cli_extract(char *buf, int buflen, int *anstype)
{
	struct query q;
	int r;
	memset(&q, 0, sizeof(q));
	conn = CONN_DNS_NULL;
	r = read_dns_withq(1234, 0, buf, buflen, &q);
	*anstype = q.type;
	return r;
}
