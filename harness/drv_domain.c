/*
 * drv_domain - records check_topdomain() / query_datalen() calls as NDJSON for TLC (spec/Domain.tla, C17).
 * usage: drv_domain valid <maxlen> <shard> <nshards>     all strings over {a,A,b,-,.,*,0} up to maxlen
 *        drv_domain match <maxlen> <shard> <nshards>     all names (no "..") up to maxlen against the 8 domains
 *        drv_domain edge <seed>                         length-boundary cases and random long names
 */
#include <stdio.h>
#include <stdlib.h>
#include <string.h>
#include <stdint.h>
#include "common.h"

static const char alpha[] = "aAb-.*0";
static const char *doms[8] = { "a.b", "ab.a", "a.b.a", "*.a.b", "*.ab", "b-a.a0", "*.b.a.b", "A.b" };
static uint64_t rng;
static unsigned rnd(void)
{
	rng = rng * 6364136223846793005ULL + 1442695040888963407ULL;
	return (unsigned) (rng >> 33);
}
static void pstr(const char *key, const char *s)
{
	int i;
	printf("\"%s\":[", key);
	for (i = 0; s[i]; i++)
		printf(i ? ",%d" : "%d", (unsigned char) s[i]);
	printf("]");
}
static void ev_valid(char *s)
{
	int allow;
	for (allow = 0; allow < 2; allow++) {
		printf("{\"e\":\"Valid\",");
		pstr("s", s);
		printf(",\"allow\":%s,\"ret\":%d}\n", allow ? "true" : "false", check_topdomain(s, allow, NULL) ? 1 : 0);
	}
}
static void ev_match(const char *s)
{
	int k;
	printf("{\"e\":\"Match\",");
	pstr("name", s);
	printf(",\"rets\":[");
	for (k = 0; k < 8; k++)
		printf(k ? ",%d" : "%d", query_datalen(s, doms[k]));
	printf("]}\n");
}
static void ev_match1(const char *name, const char *dom)
{
	printf("{\"e\":\"Match1\",");
	pstr("name", name);
	printf(",");
	pstr("dom", dom);
	printf(",\"ret\":%d}\n", query_datalen(name, dom));
}

int main(int argc, char **argv)
{
	const char *mode = argc > 1 ? argv[1] : "valid";
	if (!strcmp(mode, "valid") || !strcmp(mode, "match")) {
		int maxlen = atoi(argv[2]), shard = atoi(argv[3]), ns = atoi(argv[4]);
		int len;
		long cnt = 0;
		char s[16];
		for (len = 0; len <= maxlen; len++) {
			long total = 1, v;
			int i;
			for (i = 0; i < len; i++) total *= 7;
			for (v = 0; v < total; v++) {
				long x = v;
				for (i = 0; i < len; i++) { s[i] = alpha[x % 7]; x /= 7; }
				s[len] = 0;
				if ((cnt++ % ns) != shard) continue;
				if (mode[0] == 'v') ev_valid(s);
				else if (!strstr(s, "..")) ev_match(s);
			}
		}
	} else {
		char s[400], d[200];
		int i, k, n;
		rng = strtoull(argv[2], NULL, 10) * 2862933555777941757ULL + 3037000493ULL;
		/* label / domain length boundaries */
		for (n = 61; n <= 66; n++) {
			memset(s, 'a', n); s[n] = 0; strcat(s, ".bc"); ev_valid(s);
			strcpy(s, "ab."); memset(s + 3, 'x', n); s[3 + n] = 0; ev_valid(s);
			strcpy(s, "*."); memset(s + 2, 'y', n); s[2 + n] = 0; strcat(s, ".z"); ev_valid(s);
		}
		for (n = 125; n <= 131; n++) {
			for (i = 0; i < n; i++) s[i] = (i % 40 == 39) ? '.' : 'k';
			s[n] = 0; if (s[n - 1] == '.') s[n - 1] = 'k';
			ev_valid(s);
		}
		{ char t1[] = "ab"; char t2[] = "a.b"; char t3[] = "a."; char t4[] = ".ab"; char t5[] = "a b.c"; char t6[] = "a_b.c"; char t7[] = "*.a"; char t8[] = "**.a"; char t9[] = "*.*.a"; char t10[] = "a.*.b"; char t11[] = "*"; char t12[] = "*."; char t13[] = "a\x80.b";
		  ev_valid(t1); ev_valid(t2); ev_valid(t3); ev_valid(t4); ev_valid(t5); ev_valid(t6); ev_valid(t7); ev_valid(t8); ev_valid(t9); ev_valid(t10); ev_valid(t11); ev_valid(t12); ev_valid(t13); }
		/* random long names against random valid-looking domains */
		for (k = 0; k < atoi(argv[3]); k++) {
			int dl = 3 + rnd() % 40, nl;
			int wild = rnd() % 3 == 0;
			int p = 0;
			if (wild) { d[p++] = '*'; d[p++] = '.'; }
			for (i = 0; i < dl; i++) d[p++] = (i > 0 && i < dl - 1 && d[p - 1] != '.' && rnd() % 5 == 0) ? '.' : "abcXYZ019-"[rnd() % 10];
			if (!memchr(d + (wild ? 2 : 0), '.', p - (wild ? 2 : 0)) && !wild) { d[p++] = '.'; d[p++] = 'q'; }
			d[p] = 0;
			nl = rnd() % 200;
			p = 0;
			for (i = 0; i < nl; i++) s[p++] = (p > 0 && s[p - 1] != '.' && rnd() % 9 == 0) ? '.' : "abcxyzABC019-*"[rnd() % 14];
			s[p] = 0;
			switch (rnd() % 6) {
			case 0: break;					/* unrelated */
			case 4:						/* the domain occurs twice: <prefix>.<domain>.<domain> */
			case 5: {					/* ... or its text starts a longer label in front: <domain>xy.<domain> */
				const char *b = d + (wild ? 2 : 0);
				int two = (rnd() % 3 == 0) && strlen(b) < 90;
				if (p > 60) p = 60;
				if (p && s[p - 1] != '.') s[p++] = '.';
				s[p] = 0;
				strcat(s, b);
				if (rnd() % 2) strcat(s, rnd() % 2 ? "xy" : "munity");
				strcat(s, ".");
				if (two) { strcat(s, b); strcat(s, "."); }
				if (wild) strcat(s, "lab.");
				strcat(s, b);
				break;
			}
			case 1: if (p && s[p - 1] != '.') s[p++] = '.'; s[p] = 0; strcat(s, wild ? "lab" : ""); if (wild) strcat(s, "."); strcat(s, d + (wild ? 2 : 0)); break;
			case 2: strcat(s, d + (wild ? 2 : 0)); break;		/* suffix without boundary */
			default: strcpy(s, d + (wild ? 2 : 0)); break;		/* equals the domain (body) */
			}
			if (rnd() % 2) for (i = 0; s[i]; i++) if (rnd() % 3 == 0 && s[i] >= 'a' && s[i] <= 'z') s[i] -= 32;
			if (strstr(s, "..")) continue;
			ev_match1(s, d);
			/* near misses: one byte of the part that has to equal the domain (or of the boundary dot) replaced by a
			   byte that a sloppy comparison might confuse with it (other bit 5 / 6 / 7, neighbours, control bytes) */
			{
				int sl = (int) strlen(s), dl2 = (int) strlen(d + (wild ? 2 : 0)), j;
				for (j = 0; j < 6 && sl > 0; j++) {
					int pos = sl - 1 - (int) (rnd() % (unsigned) (dl2 + 2 < sl ? dl2 + 2 : sl));
					unsigned char c = (unsigned char) s[pos], r;
					static const unsigned char x[] = { 0x20, 0x40, 0x80, 0x10, 0x60, 0xa0, 0x01, 0x02 };
					r = c ^ x[rnd() % 8];
					if (rnd() % 4 == 0) r = c & ~0x20;
					if (rnd() % 4 == 0) r = (unsigned char) (c + (rnd() % 2 ? 1 : 255));
					if (r == 0 || r == c) continue;
					s[pos] = (char) r;
					if (!strstr(s, "..")) ev_match1(s, d);
					s[pos] = (char) c;
				}
			}
		}
	}
	return 0;
}
