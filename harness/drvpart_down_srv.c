/* The server's answer writer: #includes iodined.c to reach the static write_dns(). */
#define main iodined_main_unused
#include "iodined.c"

void srv_answer(unsigned short qtype, const char *qname, int id, char downenc, const char *data, int datalen)
{
	struct query q;
	struct sockaddr_in *sa = (struct sockaddr_in *) &q.from;
	memset(&q, 0, sizeof(q));
	q.type = qtype;
	q.id = id;
	strncpy(q.name, qname, sizeof(q.name) - 1);
	sa->sin_family = AF_INET;
	q.fromlen = sizeof(*sa);
	write_dns(1234, &q, data, datalen, downenc);
}
